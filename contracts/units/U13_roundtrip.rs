// U13: writer -> reader inverse lemmas over the APPNOTE record specs (C01, C03, C08, C19): no extracted functions,
// only proofs about the spec functions that U5 (header writers) and U6 (central parser) are proved against
use vstd::prelude::*;
verus! {
//@include shims/io.rs
//@include shims/prelude.rs
//@include shims/strings.rs
//@include shims/std_misc.rs
//@include shims/cp437.rs
//@include common/types.rs
pub mod spec {
//@include common/spec_consts.rs
}
pub open spec fn sig_at(d: Seq<u8>, p: int, sig: u32) -> bool { inb(d, p, 4) && de32(at(d, p, 4)) == sig }
//@include spec/seqlemmas.rs
//@include spec/appnote_headers.rs
//@include spec/dos_datetime.rs
//@include spec/extra_walk.rs
//@include spec/parsed.rs
//@include spec/zfd_views.rs
//@include spec/dir_written.rs
//@include spec/dir_parsed.rs
//@include spec/text_roundtrip.rs
//@include spec/roundtrip.rs
} // verus!
fn main() {}
