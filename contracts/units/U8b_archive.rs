// U8b: src/read.rs -- opening an archive and looking entries up (C03, C05, C08, C11, C13, C15)
use vstd::prelude::*;
use std::borrow::Cow;
use std::collections::HashMap;
use std::sync::Arc;
verus! {
//@include shims/io.rs
//@include shims/prelude.rs
//@include shims/strings.rs
//@include shims/std_misc.rs
//@include shims/crc32fast.rs
//@include common/types.rs
//@include shims/readers.rs
//@include shims/mem.rs
//@include shims/cp437.rs
pub mod spec {
    use super::*;
//@include common/spec_consts.rs
//@item src/spec.rs | struct CentralDirectoryEnd
//@item src/spec.rs | struct Zip64CentralDirectoryEndLocator
//@item src/spec.rs | struct Zip64CentralDirectoryEnd
}
use spec::{CentralDirectoryEnd, Zip64CentralDirectoryEndLocator, Zip64CentralDirectoryEnd};
//@include spec/seqlemmas.rs
//@include spec/appnote_end.rs
//@include spec/appnote_headers.rs
//@include spec/dos_datetime.rs
//@include spec/extra_walk.rs
//@include spec/parsed.rs

impl CentralDirectoryEnd {
//@use cde_record_too_small nobody
//@use cde_find_and_parse nobody
}
impl Zip64CentralDirectoryEndLocator {
//@use z64loc_parse nobody
}
impl Zip64CentralDirectoryEnd {
//@use z64_find_and_parse nobody
}
//@use central_header_to_zip_file nobody
//@use unsupported_zip_error nobody

// contract-only view of the entry-level pieces proved in unit U8
//@item src/read.rs | enum CryptoReader
//@item src/read.rs | enum ZipFileReader
//@item src/crc32.rs | struct Crc32Reader
//@item src/read.rs | struct ZipFile
pub open spec fn decodable(m: CompressionMethod) -> bool { m is Stored || m is Deflated || m is Bzip2 || m is Zstd }
pub open spec fn cow_val<'a>(c: Cow<'a, ZipFileData>) -> ZipFileData { match c { Cow::Borrowed(b) => *b, Cow::Owned(o) => o } }
pub open spec fn zf_wf<'a>(z: &ZipFile<'a>) -> bool {
    (z.reader is NoReader ==> z.crypto_reader is Some && decodable(cow_val(z.data).compression_method))
}
impl ZipError {
//@item src/result.rs | impl ZipError | const PASSWORD_REQUIRED
}
//@include spec/entry_pos.rs
//@use find_content nobody
//@use make_crypto_reader nobody

pub mod zip_archive {
    use super::*;
//@item src/read.rs | mod zip_archive | struct Shared
//@item src/read.rs | mod zip_archive | struct ZipArchive
}
pub use zip_archive::ZipArchive;

// cd_pos / dir_parsed: the directory walk of C03 (n records, each parsed per APPNOTE, in order)
//@include spec/dir_parsed.rs
//@include spec/dir_count.rs
pub open spec fn dir_start_of(files: Seq<ZipFileData>) -> int { if files.len() > 0 { files[0].central_header_start as int } else { 0 } }
// lookup by name returns the LAST entry with that name
pub open spec fn names_last_wins(files: Seq<ZipFileData>, m: Map<String, usize>) -> bool {
    &&& forall|j: int| 0 <= j < files.len() ==> m.contains_key(#[trigger] files[j].file_name)
    &&& forall|k: String| #[trigger] m.contains_key(k) ==> m[k] < files.len() && files[m[k] as int].file_name == k
            && forall|j: int| m[k] < j < files.len() ==> files[j].file_name != k
}

//@impl src/read.rs | impl<R: Read + io::Seek> ZipArchive<R>
impl<R: Read + io::Seek> ZipArchive<R> {
//@use za_get_directory_counts
//@use za_new
//@use za_len
//@use za_offset
//@use za_comment
//@use za_by_index_with_optional_password
//@use za_by_index
//@use za_by_index_decrypt
//@use za_by_index_raw
//@use za_by_name_with_optional_password
//@use za_by_name
//@use za_by_name_decrypt
//@use za_is_empty
//@use za_into_inner
}
} // verus!
fn main() {}
