// U7: src/write.rs -- the ZipWriter state machine (C01, C02, C08, C09, C11, C12, C13, C14, C17)
use vstd::prelude::*;
use vstd::std_specs::convert::IntoSpec;
use std::borrow::Cow;
use vstd::std_specs::iter::IteratorSpec;
verus! {
//@include shims/io.rs
//@include shims/prelude.rs
//@include shims/strings.rs
//@include shims/std_misc.rs
//@include shims/crc32fast.rs
//@include common/types.rs
//@include shims/writer_std.rs
//@include shims/encoders.rs
//@include spec/seqlemmas.rs
pub mod spec {
    use super::*;
//@include common/spec_consts.rs
//@item src/spec.rs | struct CentralDirectoryEnd
//@item src/spec.rs | struct Zip64CentralDirectoryEndLocator
//@item src/spec.rs | struct Zip64CentralDirectoryEnd
}
use spec::{CentralDirectoryEnd, Zip64CentralDirectoryEndLocator, Zip64CentralDirectoryEnd};
//@item src/write.rs | const EXTRA_FIELD_MAPPING
//@include spec/extra_ok.rs
//@include spec/appnote_end.rs
//@include spec/appnote_headers.rs
//@include spec/dos_datetime.rs
//@include spec/zfd_views.rs
//@include spec/dir_written.rs
//@include common/writer_types.rs

// ---- contract-only views of functions proved in units U4, U5, U7a
impl CentralDirectoryEnd {
//@use cde_write nobody
}
impl Zip64CentralDirectoryEndLocator {
//@use z64loc_write nobody
}
impl Zip64CentralDirectoryEnd {
//@use z64_write nobody
}
//@use write_local_file_header nobody
//@use update_local_file_header nobody
//@use write_central_directory_header nobody
//@use validate_extra_data nobody
impl<W: Write + io::Seek> GenericZipWriter<W> {
// ASSUMED (Verus has no unsizing cast to `&mut dyn Write`): ref_mut hands out the installed writer itself (T8 dyn_write):
// the reference it returns points at this very enum value, so whatever is done through it is done to `self`.
//@fn gzw_ref_mut
//@| fn: src/write.rs | impl<W: Write + io::Seek> GenericZipWriter<W> | fn ref_mut
//@| attr: #[verifier::external_body]
//@| ret: r
//@| ensures:
//@|     ((*old(self)) is Closed) <==> r is None,
//@|     r is None ==> *final(self) == *old(self),
//@|     r matches Some(x) ==> *x == *old(self) && *final(x) == *final(self),
//@end
//@use gzw_switch_to nobody
//@use gzw_is_closed nobody
//@use gzw_current_compression nobody
//@use gzw_get_plain nobody
//@use gzw_unwrap nobody
}
impl ZipWriterStats {
//@use zipwriterstats_update nobody optional
}
// contract-only, weaker restatement of clause `io_step` + precondition of zc_writer_finish (proved in unit U10)
impl<W: Write> zipcrypto::ZipCryptoWriter<W> {
//@fn zc_writer_finish_io
//@| fn: src/zipcrypto.rs | impl<W: std::io::Write> ZipCryptoWriter<W> | fn finish
//@| attr: #[verifier::external_body]
//@| ret: r
//@| mutself: yes
//@| requires:
//@|     self.buffer@.len() >= 12,
//@|     dev_ok(&self.writer),
//@| ensures:
//@|     r matches Ok(w) ==> dev_step(&self.writer, &w),
//@|     r matches Ok(w) ==> wr_n(&self.writer, &w, true, zc_enc(self.keys@, self.buffer@.update(11, (crc32 >> 24) as u8))),
//@end
}
//@item src/write.rs | struct ZipRawValues

pub mod zip_writer {
    use super::*;
//@item src/write.rs | mod zip_writer | struct ZipWriter
}
pub use zip_writer::ZipWriter;

//@include common/writer_inv.rs
//@impl src/write.rs | impl<W: Write + io::Seek> ZipWriter<W>
impl<W: Write + io::Seek> ZipWriter<W> {
//@use zw_new
//@use zw_set_raw_comment
//@use zw_set_comment
//@use zw_finish_file
//@use zw_end_extra_data
//@use zw_start_entry
//@use zw_start_file
//@use zw_add_directory
//@use zw_start_file_with_extra_data
//@use zw_end_local_start_central_extra_data
//@use zw_start_file_aligned
//@use zw_add_symlink
//@use zw_finalize
//@use zw_finish
}
// C17: the padding formula of start_file_aligned lands on a multiple of the alignment
// @props: C17 -- (x + (a - x % a) % a) % a == 0
pub proof fn lemma_align(x: int, a: int)
    requires a > 0, x >= 0
    ensures (x + (a - x % a) % a) % a == 0
{
    let r = x % a;
    vstd::arithmetic::div_mod::lemma_fundamental_div_mod(x, a);
    vstd::arithmetic::div_mod::lemma_mod_bound(x, a);
    if r == 0 {
        vstd::arithmetic::div_mod::lemma_mod_self_0(a);
        assert((a - r) % a == 0);
    } else {
        vstd::arithmetic::div_mod::lemma_small_mod((a - r) as nat, a as nat);
        assert((a - r) % a == a - r);
        // x + a - r = a * (x / a) + a = a * (x/a + 1)
        assert(x + (a - r) == a * (x / a + 1)) by(nonlinear_arith) requires x == a * (x / a) + r;
        vstd::arithmetic::div_mod::lemma_mod_multiples_basic(x / a + 1, a);
        assert((a * (x / a + 1)) % a == 0) by { vstd::arithmetic::mul::lemma_mul_is_commutative(a, x / a + 1); }
    }
}

//@impl src/write.rs | impl<W: Write + io::Seek> Write for ZipWriter<W>
impl<W: Write + io::Seek> Write for ZipWriter<W> {
//@use zw_write
//@use zw_flush
}
// T7x in start_file_aligned / add_symlink: `self.write_all(..)` / `self.write_u16::<LittleEndian>(..)` on the ZipWriter itself.
//@include common/writer_std_models.rs
// T7x in start_entry: `zipwriter.write_all(&crypto_header)` on the buffering ZipCryptoWriter.
// ASSUMED: write_all is repeated write; ZipCryptoWriter::write (proved in U7a/U10) accepts everything at once.
#[verifier::external_body]
fn shim_zc_write_all<W: Write>(z: &mut zipcrypto::ZipCryptoWriter<W>, buf: &[u8]) -> (r: io::Result<()>)
    ensures r is Ok, final(z).buffer@ == old(z).buffer@ + buf@, final(z).writer == old(z).writer, final(z).keys == old(z).keys
{ unimplemented!() }

} // verus!
fn main() {}
