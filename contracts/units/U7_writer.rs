// U7: src/write.rs -- the ZipWriter state machine (C01, C02, C08, C09, C11, C12, C13, C14, C17)
use vstd::prelude::*;
use std::borrow::Cow;
use vstd::std_specs::iter::IteratorSpec;
verus! {
//@include shims/io.rs
//@include shims/prelude.rs
//@include shims/strings.rs
//@include shims/std_misc.rs
//@include shims/crc32fast.rs
//@include common/types.rs
//@include shims/writer_std.rs
//@include shims/encoders.rs
//@include spec/seqlemmas.rs
pub mod spec {
    use super::*;
//@item src/spec.rs | const LOCAL_FILE_HEADER_SIGNATURE
//@item src/spec.rs | const CENTRAL_DIRECTORY_HEADER_SIGNATURE
//@item src/spec.rs | const ZIP64_BYTES_THR
//@item src/spec.rs | const ZIP64_ENTRY_THR
//@item src/spec.rs | struct CentralDirectoryEnd
//@item src/spec.rs | struct Zip64CentralDirectoryEndLocator
//@item src/spec.rs | struct Zip64CentralDirectoryEnd
}
use spec::{CentralDirectoryEnd, Zip64CentralDirectoryEndLocator, Zip64CentralDirectoryEnd};
//@item src/write.rs | const EXTRA_FIELD_MAPPING
//@include spec/extra_ok.rs
//@include spec/appnote_end.rs
//@include spec/appnote_headers.rs
//@include spec/zfd_views.rs
//@include common/writer_types.rs

// ---- contract-only views of functions proved in units U4, U5, U7a
impl CentralDirectoryEnd {
//@use cde_write nobody
}
impl Zip64CentralDirectoryEndLocator {
//@use z64loc_write nobody
}
impl Zip64CentralDirectoryEnd {
//@use z64_write nobody
}
//@use write_local_file_header nobody
//@use update_local_file_header nobody
//@use write_central_directory_header nobody
//@use validate_extra_data nobody
impl<W: Write + io::Seek> GenericZipWriter<W> {
// ASSUMED (Verus has no unsizing cast to `&mut dyn Write`): ref_mut hands out the installed writer; whatever is
// written through it, the installed method stays and the sink below stays usable (every Write operation
// preserves g_inv).  Content written through it is not tracked here (MaybeEncrypted::write is proved in U7a).
//@fn gzw_ref_mut
//@| fn: src/write.rs | impl<W: Write + io::Seek> GenericZipWriter<W> | fn ref_mut
//@| attr: #[verifier::external_body]
//@| ret: r
//@| ensures:
//@|     ((*old(self)) is Closed) <==> r is None,
//@|     gzw_method(*final(self)) == gzw_method(*old(self)),
//@|     !((*old(self)) is Closed) ==> (gzw_sink(*old(self)) is Unencrypted) == (gzw_sink(*final(self)) is Unencrypted),
//@|     !((*old(self)) is Closed) && gzw_sink(*old(self)).g_inv() ==> gzw_sink(*final(self)).g_inv(),
//@|     !((*old(self)) is Closed) ==> dev_step(&gzw_sink(*old(self)), &gzw_sink(*final(self))),
//@|     !((*old(self)) is Closed) && gzw_sink(*old(self)).g_dev() && !gzw_sink(*final(self)).g_fault()
//@|         ==> gzw_sink(*final(self)).g_pos() >= gzw_sink(*old(self)).g_pos(),
//@end
//@use gzw_switch_to nobody
//@use gzw_is_closed nobody
//@use gzw_current_compression nobody
//@use gzw_get_plain nobody
//@use gzw_unwrap nobody
}
impl ZipWriterStats {
//@use zipwriterstats_update nobody
}
// contract-only, weaker restatement of clause `io_step` + precondition of zc_writer_finish (proved in unit U10)
impl<W: Write> zipcrypto::ZipCryptoWriter<W> {
//@fn zc_writer_finish_io
//@| fn: src/zipcrypto.rs | impl<W: std::io::Write> ZipCryptoWriter<W> | fn finish
//@| attr: #[verifier::external_body]
//@| ret: r
//@| mutself: yes
//@| requires:
//@|     self.buffer@.len() >= 12,
//@|     dev_ok(&self.writer),
//@| ensures:
//@|     r matches Ok(w) ==> dev_step(&self.writer, &w),
//@end
}
//@item src/write.rs | struct ZipRawValues
//@item src/types.rs | const DEFAULT_VERSION

pub mod zip_writer {
    use super::*;
//@item src/write.rs | mod zip_writer | struct ZipWriter
}
pub use zip_writer::ZipWriter;

// ---- the representation invariant of ZipWriter (C12): what every public operation needs and re-establishes
pub open spec fn files_ok(files: Seq<ZipFileData>) -> bool {
    forall|i: int| 0 <= i < files.len() ==> (#[trigger] files[i]).last_modified_time.year >= 1980
}
pub open spec fn zw_faulted<W: Write + io::Seek>(w: &ZipWriter<W>) -> bool {
    gzw_plain(w.inner) && gzw_plain_sink(w.inner).g_fault()
}
pub open spec fn maybe_ok<W: Write + io::Seek>(m: MaybeEncrypted<W>) -> bool { m.g_inv() }
pub open spec fn zw_wf<W: Write + io::Seek>(w: &ZipWriter<W>) -> bool {
    &&& files_ok(w.files@)
    &&& (w.writing_to_file ==> w.files@.len() > 0)
    &&& (w.writing_to_extra_field ==> w.writing_to_file && !w.writing_raw && w.files@.last().header_start + 30 <= MAX_OFF)
    &&& (w.writing_to_extra_field && !w.writing_to_central_extra_field_only ==> (gzw_plain(w.inner) || w.inner is Closed))
    // while local extra data is being collected over an unfaulted sink, the sink has not moved back behind the
    // recorded data start (it is parked there; only Write operations, which advance, can reach it meanwhile)
    &&& (w.writing_to_extra_field && !w.writing_to_central_extra_field_only && gzw_plain(w.inner) && !zw_faulted(w)
            ==> w.files@.last().data_start.0.g_val() <= gzw_plain_sink(w.inner).g_pos())
    &&& (w.writing_to_central_extra_field_only ==> w.writing_to_extra_field)
    &&& (!(w.inner is Closed) ==> maybe_ok(gzw_sink(w.inner)))
    &&& (w.inner matches GenericZipWriter::Storer(MaybeEncrypted::Encrypted(_)) ==> w.files@.len() > 0)
}
// Only relevant after a device fault inside end_extra_data: the recorded data start still has room for one more
// extra field.  Without a fault it follows from zw_wf (data start == sink position <= 2^63).  After such a fault
// every failed retry may add up to 65535, so 2^47 retries would be needed to exhaust it: stated, not proved.
pub open spec fn zw_room<W: Write + io::Seek>(w: &ZipWriter<W>) -> bool {
    w.writing_to_extra_field && !w.writing_to_central_extra_field_only && w.files@.len() > 0
        ==> w.files@.last().data_start.0.g_val() <= 0xFFFF_FFFF_FFFF_0000
}

//@impl src/write.rs | impl<W: Write + io::Seek> ZipWriter<W>
impl<W: Write + io::Seek> ZipWriter<W> {
//@use zw_new
//@use zw_set_raw_comment
//@use zw_finish_file
//@use zw_end_extra_data
//@use zw_start_entry
//@use zw_start_file
//@use zw_add_directory
//@use zw_start_file_with_extra_data
//@use zw_end_local_start_central_extra_data
//@use zw_start_file_aligned
//@use zw_add_symlink
//@use zw_finalize
//@use zw_finish
}
// C02/C08: what finalize leaves behind the central directory that starts at `cs` and is `csz` bytes long
pub open spec fn fin_ok(bytes: Seq<u8>, pos: int, n: int, comment: Seq<u8>, cs: int, csz: int, z64: bool) -> bool {
    let e = Eocd { disk: 0, cd_disk: 0,
                   n_this: (if n > 0xFFFF { 0xFFFFu16 } else { n as u16 }), n_total: (if n > 0xFFFF { 0xFFFFu16 } else { n as u16 }),
                   cd_size: sat32(csz as u64), cd_off: sat32(cs as u64), comment: comment };
    let zr = Z64Eocd { made_by: 46, needed: 46, disk: 0, cd_disk: 0, n_this: n as u64, n_total: n as u64, cd_size: csz as u64, cd_off: cs as u64 };
    let zl = Z64Loc { cd_disk: 0, z64_off: (cs + csz) as u64, n_disks: 1 };
    let tail = if z64 { cs + csz + 76 } else { cs + csz };
    &&& 0 <= cs && 0 <= csz && cs + csz <= MAX_OFF
    // ZIP64 records are present whenever a count, size or offset does not fit its field
    &&& ((n > 0xFFFF || csz > U32MAX || cs > U32MAX) ==> z64)
    // and whenever present they carry the exact values and point at each other
    &&& (z64 ==> inb(bytes, cs + csz, 76) && at(bytes, cs + csz, 56) == enc_z64eocd(zr) && at(bytes, cs + csz + 56, 20) == enc_z64loc(zl))
    // the end record closes the file; each field is exact, or saturated with the ZIP64 record present
    &&& inb(bytes, tail, 22 + comment.len() as int) && at(bytes, tail, 22 + comment.len() as int) == enc_eocd(e)
    &&& pos == tail + 22 + comment.len()
    &&& (!z64 ==> e.n_total as int == n && e.cd_size as int == csz && e.cd_off as int == cs)
}
// C17: the padding formula of start_file_aligned lands on a multiple of the alignment
pub proof fn lemma_align(x: int, a: int)
    requires a > 0, x >= 0
    ensures (x + (a - x % a) % a) % a == 0
{
    let r = x % a;
    vstd::arithmetic::div_mod::lemma_fundamental_div_mod(x, a);
    vstd::arithmetic::div_mod::lemma_mod_bound(x, a);
    if r == 0 {
        vstd::arithmetic::div_mod::lemma_mod_self_0(a);
        assert((a - r) % a == 0);
    } else {
        vstd::arithmetic::div_mod::lemma_small_mod((a - r) as nat, a as nat);
        assert((a - r) % a == a - r);
        // x + a - r = a * (x / a) + a = a * (x/a + 1)
        assert(x + (a - r) == a * (x / a + 1)) by(nonlinear_arith) requires x == a * (x / a) + r;
        vstd::arithmetic::div_mod::lemma_mod_multiples_basic(x / a + 1, a);
        assert((a * (x / a + 1)) % a == 0) by { vstd::arithmetic::mul::lemma_mul_is_commutative(a, x / a + 1); }
    }
}

// ZipWriter itself is a Write adapter: usable while its representation invariant holds
pub open spec fn zw_ready<W: Write + io::Seek>(w: &ZipWriter<W>) -> bool {
    zw_wf(w) && w.stats.bytes_written <= 0x7fff_ffff_ffff_ffff
}
impl<W: Write + io::Seek> Dev for ZipWriter<W> {
    open spec fn g_ready(&self) -> bool { zw_ready(self) }
    open spec fn g_dev(&self) -> bool { false }
    open spec fn g_bytes(&self) -> Seq<u8> { Seq::empty() }
    open spec fn g_pos(&self) -> int { 0 }
    open spec fn g_fault(&self) -> bool { false }
}
//@impl src/write.rs | impl<W: Write + io::Seek> Write for ZipWriter<W>
impl<W: Write + io::Seek> Write for ZipWriter<W> {
//@use zw_write
//@use zw_flush
}
// T7x in start_file_aligned / add_symlink: `self.write_all(..)` / `self.write_u16::<LittleEndian>(..)` on the ZipWriter itself.
// ASSUMED: std's write_all is repeated `write`; the effect below is what ZipWriter::write (proved: zw_write) gives
// when every call accepts what that contract says it accepts.
#[verifier::external_body]
fn shim_zw_write_all<W: Write + io::Seek>(w: &mut ZipWriter<W>, buf: &[u8]) -> (r: io::Result<()>)
    requires zw_ready(old(w)),
    ensures
        zw_wf(final(w)) && (zw_room(final(w)) || zw_faulted(final(w)) || final(w).inner is Closed),
        final(w).files@.len() == old(w).files@.len(),
        forall|i: int| 0 <= i < old(w).files@.len() - 1 ==> final(w).files@[i] == old(w).files@[i],
        final(w).writing_to_file == old(w).writing_to_file && final(w).writing_to_extra_field == old(w).writing_to_extra_field
            && final(w).writing_to_central_extra_field_only == old(w).writing_to_central_extra_field_only
            && final(w).writing_raw == old(w).writing_raw && final(w).comment == old(w).comment,
        !old(w).writing_to_file || old(w).inner is Closed ==> r is Err,
        // extra-data mode: everything is collected verbatim, nothing else moves
        old(w).writing_to_file && old(w).writing_to_extra_field && !(old(w).inner is Closed) ==> r is Ok
            && final(w).files@.last().extra_field@ == old(w).files@.last().extra_field@ + buf@
            && final(w).files@.last().data_start == old(w).files@.last().data_start
            && final(w).files@.last().header_start == old(w).files@.last().header_start
            && final(w).files@.last().large_file == old(w).files@.last().large_file
            && final(w).inner == old(w).inner && final(w).stats == old(w).stats,
        // data mode: entries untouched; on success the whole buffer was accounted
        !old(w).writing_to_extra_field ==> final(w).files@ == old(w).files@,
        r is Ok && !old(w).writing_to_extra_field ==> final(w).stats.hasher@ == old(w).stats.hasher@ + buf@
            && final(w).stats.bytes_written == old(w).stats.bytes_written + buf@.len(),
{ unimplemented!() }
#[verifier::external_body]
fn shim_zw_write_u16<W: Write + io::Seek>(w: &mut ZipWriter<W>, v: u16) -> (r: io::Result<()>)
    requires zw_ready(old(w)),
    ensures
        zw_wf(final(w)) && (zw_room(final(w)) || zw_faulted(final(w)) || final(w).inner is Closed),
        final(w).files@.len() == old(w).files@.len(),
        final(w).writing_to_file == old(w).writing_to_file && final(w).writing_to_extra_field == old(w).writing_to_extra_field
            && final(w).writing_to_central_extra_field_only == old(w).writing_to_central_extra_field_only
            && final(w).writing_raw == old(w).writing_raw && final(w).comment == old(w).comment,
        old(w).writing_to_file && old(w).writing_to_extra_field && !(old(w).inner is Closed) ==> r is Ok
            && final(w).files@.last().extra_field@ == old(w).files@.last().extra_field@ + le16(v)
            && final(w).files@.last().data_start == old(w).files@.last().data_start
            && final(w).files@.last().header_start == old(w).files@.last().header_start
            && final(w).files@.last().large_file == old(w).files@.last().large_file
            && final(w).inner == old(w).inner && final(w).stats == old(w).stats,
{ unimplemented!() }
// T7x in start_entry: `zipwriter.write_all(&crypto_header)` on the buffering ZipCryptoWriter.
// ASSUMED: write_all is repeated write; ZipCryptoWriter::write (proved in U7a/U10) accepts everything at once.
#[verifier::external_body]
fn shim_zc_write_all<W: Write>(z: &mut zipcrypto::ZipCryptoWriter<W>, buf: &[u8]) -> (r: io::Result<()>)
    ensures r is Ok, final(z).buffer@ == old(z).buffer@ + buf@, final(z).writer == old(z).writer, final(z).keys == old(z).keys
{ unimplemented!() }

} // verus!
fn main() {}
