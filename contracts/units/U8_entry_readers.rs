// U8: src/read.rs -- per-entry reader stack (C03, C04, C05, C10, C11, C14, C15, C16)
use vstd::prelude::*;
use std::borrow::Cow;
verus! {
//@include shims/io.rs
//@include shims/prelude.rs
//@include shims/strings.rs
//@include shims/std_misc.rs
//@include shims/crc32fast.rs
//@include common/types.rs
//@include shims/readers.rs
//@include shims/mem.rs
pub mod io2 {}
pub mod spec {
//@include common/spec_consts.rs
}
pub open spec fn sig_at(d: Seq<u8>, p: int, sig: u32) -> bool { inb(d, p, 4) && de32(at(d, p, 4)) == sig }
//@include spec/appnote_headers.rs
//@include spec/dos_datetime.rs
//@include shims/cp437.rs
//@include spec/extra_walk.rs
//@include spec/parsed.rs

//@item src/crc32.rs | struct Crc32Reader
impl<R: Dev> Dev for Crc32Reader<R> {
    open spec fn g_ready(&self) -> bool { self.inner.g_ready() }
    open spec fn g_dev(&self) -> bool { false }
    open spec fn g_bytes(&self) -> Seq<u8> { Seq::empty() }
    open spec fn g_pos(&self) -> int { 0 }
    open spec fn g_fault(&self) -> bool { false }
}
impl<R> Crc32Reader<R> {
//@use crc32reader_new nobody
//@use crc32reader_into_inner nobody
//@use crc32reader_get_mut nobody optional
}
impl<R: Read> Read for Crc32Reader<R> {
//@use crc32reader_read nobody
}
impl DateTime {
//@use dt_timepart nobody
//@use dt_from_msdos nobody
}
impl System {
//@use system_from_u8 nobody
}
impl CompressionMethod {
//@use cm_from_u16 nobody
}
//@use parse_extra_field nobody

//@item src/read.rs | enum CryptoReader
impl<'a> Dev for CryptoReader<'a> {
    open spec fn g_dev(&self) -> bool { false }
    open spec fn g_bytes(&self) -> Seq<u8> { Seq::empty() }
    open spec fn g_pos(&self) -> int { 0 }
    open spec fn g_fault(&self) -> bool { false }
}
//@impl src/read.rs | impl<'a> Read for CryptoReader<'a>
impl<'a> Read for CryptoReader<'a> {
    // a plaintext (unencrypted) entry reads straight from its bounded view of the archive
    open spec fn g_read_rel(&self, after: &Self, buf_len: int, out: Seq<u8>, r: io::Result<usize>) -> bool {
        &&& (*self) matches CryptoReader::Plaintext(t0) ==> ((*after) matches CryptoReader::Plaintext(t1)
            && take_read(t0.inner, t0.limit, t1.inner, t1.limit, buf_len, out, r is Ok, (if r is Ok { r->Ok_0 as int } else { 0 })))
        // an AES entry reads through its authenticating reader (whose read relation says: end-of-file only after the code was checked)
        &&& (*self) matches CryptoReader::Aes { reader: a0, vendor_version: v0 } ==> ((*after) matches CryptoReader::Aes { reader: a1, vendor_version: v1 }
            && v1 == v0 && a0.g_read_rel(&a1, buf_len, out, r))
        &&& ((*self) is ZipCrypto ==> (*after) is ZipCrypto)
    }
//@use cryptoreader_read
}
//@impl src/read.rs | impl<'a> CryptoReader<'a>
impl<'a> CryptoReader<'a> {
//@use cryptoreader_into_inner
//@use cryptoreader_is_ae2_encrypted
}
//@use unsupported_zip_error
//@use find_content
//@use make_crypto_reader

//@item src/read.rs | enum ZipFileReader
impl<'a> Dev for ZipFileReader<'a> {
    open spec fn g_ready(&self) -> bool { !(self is NoReader) }
    open spec fn g_dev(&self) -> bool { false }
    open spec fn g_bytes(&self) -> Seq<u8> { Seq::empty() }
    open spec fn g_pos(&self) -> int { 0 }
    open spec fn g_fault(&self) -> bool { false }
}
//@use make_reader
//@impl src/read.rs | impl<'a> Read for ZipFileReader<'a>
impl<'a> Read for ZipFileReader<'a> {
//@use zipfilereader_read
}
//@include common/reader_std_models.rs
//@impl src/read.rs | impl<'a> ZipFileReader<'a>
impl<'a> ZipFileReader<'a> {
//@use zipfilereader_authenticate_rest optional
//@use zipfilereader_into_inner
}

//@item src/read.rs | struct ZipFile
//@include spec/entry_views.rs
impl<'a> Dev for ZipFile<'a> {
    open spec fn g_ready(&self) -> bool { zf_wf(self) }
    open spec fn g_dev(&self) -> bool { false }
    open spec fn g_bytes(&self) -> Seq<u8> { Seq::empty() }
    open spec fn g_pos(&self) -> int { 0 }
    open spec fn g_fault(&self) -> bool { false }
}
impl ZipFileData {
//@use zfd_unix_mode
}
//@impl src/read.rs | impl<'a> ZipFile<'a>
impl<'a> ZipFile<'a> {
//@use zipfile_get_reader
//@use zipfile_get_raw_reader
//@use zipfile_encrypted
//@use zipfile_compressed_size
//@use zipfile_size
//@use zipfile_last_modified
//@use zipfile_compression
//@use zipfile_crc32
//@use zipfile_header_start
//@use zipfile_extra_data
//@use zipfile_data_start
//@use zipfile_central_header_start
//@use zipfile_unix_mode
//@use zipfile_name
//@use zipfile_name_raw
//@use zipfile_comment
//@use zipfile_is_dir
//@use zipfile_is_file
//@use zipfile_skip_rest
}
//@use read_zipfile_or_end_from_stream
//@use read_zipfile_from_stream
//@impl src/read.rs | impl<'a> Read for ZipFile<'a>
impl<'a> Read for ZipFile<'a> {
//@use zipfile_read
}
// T14: `Drop::drop` is verified as an inherent method (same text) so that it can carry the representation
// invariant zf_wf as a precondition; Verus allows neither preconditions nor ordinary callees in `impl Drop`.
//@impl src/read.rs | impl<'a> Drop for ZipFile<'a>
impl<'a> ZipFile<'a> {
//@use zipfile_drop
}
} // verus!
fn main() {}
