// U8: src/read.rs -- per-entry reader stack (C03, C04, C05, C10, C11, C14, C15, C16)
use vstd::prelude::*;
use std::borrow::Cow;
verus! {
//@include shims/io.rs
//@include shims/prelude.rs
//@include shims/strings.rs
//@include shims/std_misc.rs
//@include shims/crc32fast.rs
//@include common/types.rs
//@include shims/readers.rs
//@include shims/mem.rs
pub mod io2 {}
pub mod spec {
//@item src/spec.rs | const LOCAL_FILE_HEADER_SIGNATURE
//@item src/spec.rs | const CENTRAL_DIRECTORY_HEADER_SIGNATURE
}
pub open spec fn sig_at(d: Seq<u8>, p: int, sig: u32) -> bool { inb(d, p, 4) && de32(at(d, p, 4)) == sig }
//@include spec/appnote_headers.rs
//@include shims/cp437.rs
//@include spec/extra_walk.rs
//@include spec/parsed.rs

//@item src/crc32.rs | struct Crc32Reader
impl<R: Dev> Dev for Crc32Reader<R> {
    open spec fn g_ready(&self) -> bool { self.inner.g_ready() }
    open spec fn g_dev(&self) -> bool { false }
    open spec fn g_bytes(&self) -> Seq<u8> { Seq::empty() }
    open spec fn g_pos(&self) -> int { 0 }
    open spec fn g_fault(&self) -> bool { false }
}
impl<R> Crc32Reader<R> {
//@use crc32reader_new nobody
//@use crc32reader_into_inner nobody
}
impl<R: Read> Read for Crc32Reader<R> {
//@use crc32reader_read nobody
}
impl DateTime {
//@use dt_timepart nobody
//@use dt_from_msdos nobody
}
impl System {
//@use system_from_u8 nobody
}
impl CompressionMethod {
//@use cm_from_u16 nobody
}
//@use parse_extra_field nobody

//@item src/read.rs | enum CryptoReader
impl<'a> Dev for CryptoReader<'a> {
    open spec fn g_dev(&self) -> bool { false }
    open spec fn g_bytes(&self) -> Seq<u8> { Seq::empty() }
    open spec fn g_pos(&self) -> int { 0 }
    open spec fn g_fault(&self) -> bool { false }
}
//@impl src/read.rs | impl<'a> Read for CryptoReader<'a>
impl<'a> Read for CryptoReader<'a> {
//@use cryptoreader_read
}
//@impl src/read.rs | impl<'a> CryptoReader<'a>
impl<'a> CryptoReader<'a> {
//@use cryptoreader_into_inner
//@use cryptoreader_is_ae2_encrypted
}
//@use unsupported_zip_error
//@use find_content
//@use make_crypto_reader

//@item src/read.rs | enum ZipFileReader
impl<'a> Dev for ZipFileReader<'a> {
    open spec fn g_ready(&self) -> bool { !(self is NoReader) }
    open spec fn g_dev(&self) -> bool { false }
    open spec fn g_bytes(&self) -> Seq<u8> { Seq::empty() }
    open spec fn g_pos(&self) -> int { 0 }
    open spec fn g_fault(&self) -> bool { false }
}
// C04: which reader variants verify the checksum, against which value, with which AE-2 exemption
pub open spec fn crc_checked<'a>(z: ZipFileReader<'a>, crc: u32, ae2: bool, src: CryptoReader<'a>) -> bool {
    match z {
        ZipFileReader::Stored(c) => c.check == crc && c.ae2_encrypted == ae2 && c.hasher@ == Seq::<u8>::empty() && c.inner == src,
        ZipFileReader::Deflated(c) => c.check == crc && c.ae2_encrypted == ae2 && c.hasher@ == Seq::<u8>::empty() && c.inner.g_inner() == src,
        ZipFileReader::Bzip2(c) => c.check == crc && c.ae2_encrypted == ae2 && c.hasher@ == Seq::<u8>::empty() && c.inner.g_inner() == src,
        ZipFileReader::Zstd(c) => c.check == crc && c.ae2_encrypted == ae2 && c.hasher@ == Seq::<u8>::empty() && c.inner.g_inner().g_inner() == src,
        _ => false,
    }
}
pub open spec fn is_ae2(c: CryptoReader) -> bool { c matches CryptoReader::Aes { vendor_version: AesVendorVersion::Ae2, .. } }
pub open spec fn decodable(m: CompressionMethod) -> bool { m is Stored || m is Deflated || m is Bzip2 || m is Zstd }
//@use make_reader
//@impl src/read.rs | impl<'a> Read for ZipFileReader<'a>
impl<'a> Read for ZipFileReader<'a> {
//@use zipfilereader_read
}
//@impl src/read.rs | impl<'a> ZipFileReader<'a>
impl<'a> ZipFileReader<'a> {
//@use zipfilereader_into_inner
}

//@item src/read.rs | struct ZipFile
// representation invariant of an open entry: until the decoder stack is built, the crypto reader is there
// and the method is one make_reader can decode (established by make_crypto_reader's contract)
pub open spec fn cow_val<'a>(c: Cow<'a, ZipFileData>) -> ZipFileData {
    match c { Cow::Borrowed(b) => *b, Cow::Owned(o) => o }
}
// T7x: `&self.data` / `self.data.<field>` go through Cow's Deref, for which the installed Verus accepts no
// assume_specification (late-bound lifetime mismatch); the call is redirected to this shim.
// ASSUMED: Deref for Cow yields the borrowed or the owned value
#[verifier::external_body]
pub fn shim_cow_ref<'b, 'a>(c: &'b Cow<'a, ZipFileData>) -> (r: &'b ZipFileData)
    ensures *r == cow_val(*c)
{ &**c }
pub open spec fn zf_wf<'a>(z: &ZipFile<'a>) -> bool {
    (z.reader is NoReader ==> z.crypto_reader is Some && decodable(cow_val(z.data).compression_method))
}
impl<'a> Dev for ZipFile<'a> {
    open spec fn g_ready(&self) -> bool { zf_wf(self) }
    open spec fn g_dev(&self) -> bool { false }
    open spec fn g_bytes(&self) -> Seq<u8> { Seq::empty() }
    open spec fn g_pos(&self) -> int { 0 }
    open spec fn g_fault(&self) -> bool { false }
}
// C03: the attribute-to-mode table (also proved bit-precisely by Kani: types/unix_mode_mapping)
pub open spec fn unix_mode_of(f: ZipFileData) -> Option<u32> {
    if f.external_attributes == 0 { None } else {
        match f.system {
            System::Unix => Some(f.external_attributes >> 16),
            System::Dos => {
                let base = if 0x10 == (f.external_attributes & 0x10) { ffi::S_IFDIR | 0o0775 } else { ffi::S_IFREG | 0o0664 };
                Some(if 0x01 == (f.external_attributes & 0x01) { base & 0o0555 } else { base })
            }
            _ => None,
        }
    }
}
impl ZipFileData {
//@use zfd_unix_mode
}
#[verifier::external_body]
pub fn shim_string_as_str<'b>(s: &'b String) -> (r: &'b str) ensures r@ == s@ { s.as_str() }
//@impl src/read.rs | impl<'a> ZipFile<'a>
impl<'a> ZipFile<'a> {
//@use zipfile_get_reader
//@use zipfile_compressed_size
//@use zipfile_size
//@use zipfile_last_modified
//@use zipfile_compression
//@use zipfile_crc32
//@use zipfile_header_start
//@use zipfile_central_header_start
//@use zipfile_unix_mode
//@use zipfile_name
}
// C10: what the streaming reader must report for a local header
pub open spec fn lstate0(h: Lfh) -> XState {
    XState { usz: h.usize32 as u64, csz: h.csize32 as u64, hs: 0, large: false, aes: None, method: method_of_code(h.method) }
}
pub open spec fn streamed_matches(f: ZipFileData, h: Lfh, made_by: u16) -> bool {
    &&& f.system == system_of_code((made_by >> 8) as u8)
    &&& f.encrypted == (h.flags & 1 == 1)
    &&& f.using_data_descriptor == (h.flags & (1u16 << 3) != 0)
    &&& f.last_modified_time == msdos_dt(h.date, h.time)
    &&& f.crc32 == h.crc
    &&& f.file_name_raw@ == h.name
    &&& f.file_name@ == decode_text(h.flags, h.name)
    &&& f.extra_field@ == h.extra
    &&& (xwf(h.extra, 0, lstate0(h)) ==> (xwalk(h.extra, 0, lstate0(h)) matches Some(st)
            && f.uncompressed_size == st.usz && f.compressed_size == st.csz && f.compression_method == st.method))
}
//@use read_zipfile_from_stream
//@impl src/read.rs | impl<'a> Read for ZipFile<'a>
impl<'a> Read for ZipFile<'a> {
//@use zipfile_read
}
// T14: `Drop::drop` is verified as an inherent method (same text) so that it can carry the representation
// invariant zf_wf as a precondition; Verus allows neither preconditions nor ordinary callees in `impl Drop`.
//@impl src/read.rs | impl<'a> Drop for ZipFile<'a>
impl<'a> ZipFile<'a> {
//@use zipfile_drop
}
} // verus!
fn main() {}
