// U5: src/write.rs header serialisers + the small pure helpers they call (C01, C02, C08, C11, C15, C17, C19)
use vstd::prelude::*;
verus! {
//@include shims/io.rs
//@include shims/prelude.rs
//@include shims/strings.rs
//@include shims/std_misc.rs
//@include spec/seqlemmas.rs
//@include common/types.rs
pub mod spec {
//@include common/spec_consts.rs
}
pub open spec fn sig_at(d: Seq<u8>, p: int, sig: u32) -> bool { inb(d, p, 4) && de32(at(d, p, 4)) == sig }
//@include spec/appnote_headers.rs
//@include spec/dos_datetime.rs
//@include spec/zfd_views.rs

proof fn lemma_header_signatures()
    ensures spec::LOCAL_FILE_HEADER_SIGNATURE == SIG_LFH, spec::CENTRAL_DIRECTORY_HEADER_SIGNATURE == SIG_CDH, spec::ZIP64_BYTES_THR == U32MAX
{ }

//@impl src/types.rs | impl DateTime
impl DateTime {
//@use dt_timepart
//@use dt_datepart
//@use dt_from_date_and_time
//@use dt_year
//@use dt_month
//@use dt_day
//@use dt_hour
//@use dt_minute
//@use dt_second
}
//@impl src/compression.rs | impl CompressionMethod
impl CompressionMethod {
//@use cm_to_u16
}
//@impl src/types.rs | impl ZipFileData
impl ZipFileData {
//@use zfd_zip64_extension
//@use zfd_version_needed
}

// TRUSTED (T7x in write_central_directory_header): `impl Write for &mut [u8]` copies into the front of the
// array and cannot fail while at most 28 bytes are written; the callee's own contract (proved below for every sink) gives the bytes.
#[verifier::external_body]
fn shim_z64_into_array(arr: &mut [u8; 28], file: &ZipFileData) -> (r: ZipResult<u16>)
    ensures
        r is Ok,
        r matches Ok(n) ==> n as int == z64c_of(*file).len() && n <= 28 && final(arr)@.subrange(0, n as int) == z64c_of(*file),
{ unimplemented!() }

//@use write_local_zip64_extra_field
//@use update_local_zip64_extra_field
//@use write_central_zip64_extra_field
//@use write_local_file_header
//@use update_local_file_header
//@use write_central_directory_header
} // verus!
fn main() {}
