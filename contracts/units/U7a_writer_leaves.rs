// U7a: leaf functions of src/write.rs below the ZipWriter state machine (C12, C17, C11, C09, C01)
use vstd::prelude::*;
verus! {
//@include shims/io.rs
//@include shims/prelude.rs
//@include shims/std_misc.rs
//@include shims/crc32fast.rs
//@include common/types.rs
//@include shims/writer_std.rs
pub mod spec {
//@item src/spec.rs | const ZIP64_ENTRY_THR
}
//@item src/write.rs | const EXTRA_FIELD_MAPPING
//@include spec/extra_ok.rs

//@use validate_extra_data
//@use clamp_opt
} // verus!
fn main() {}
