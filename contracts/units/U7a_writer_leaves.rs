// U7a: leaf functions of src/write.rs below the ZipWriter state machine (C12, C17, C11, C09, C01)
use vstd::prelude::*;
verus! {
//@include shims/io.rs
//@include shims/prelude.rs
//@include shims/std_misc.rs
//@include shims/crc32fast.rs
//@include common/types.rs
//@include shims/writer_std.rs
//@include shims/encoders.rs
pub mod spec {
//@include common/spec_consts.rs
}
//@item src/write.rs | const EXTRA_FIELD_MAPPING
//@include spec/extra_ok.rs
//@include spec/dos_datetime.rs

//@include common/writer_types.rs
//@use deflate_compression_level_range
//@use bzip2_compression_level_range
//@impl src/write.rs | impl<W: Write + io::Seek> GenericZipWriter<W>
impl<W: Write + io::Seek> GenericZipWriter<W> {
//@use gzw_switch_to
//@use gzw_is_closed
//@use gzw_current_compression
//@use gzw_get_plain
//@use gzw_unwrap
}
// client check (mine, not crate code; no contract of the crate depends on it): the contract of get_plain is strong
// enough for a caller to write through the returned borrow and get the writer back in the same shape
fn client_of_get_plain<W: Write + io::Seek>(g: &mut GenericZipWriter<W>, buf: &[u8]) -> (r: io::Result<()>)
    requires gzw_plain(*old(g)), gzw_plain_sink(*old(g)).g_ready(),
    ensures gzw_plain(*final(g)), wr_n(&gzw_plain_sink(*old(g)), &gzw_plain_sink(*final(g)), r is Ok, buf@),
{
    let w = g.get_plain();
    w.write_all(buf)
}
//@impl src/write.rs | impl ZipWriterStats ; optional
impl ZipWriterStats {
//@use zipwriterstats_update optional
}
// contracts only: what a leaf function may ask a DateTime (bodies are verified in U5)
impl DateTime {
//@use dt_datepart nobody
//@use dt_timepart nobody
}
//@impl src/write.rs | impl FileOptions
impl FileOptions {
//@use fileoptions_compression_method
//@use fileoptions_compression_level
//@use fileoptions_last_modified_time
//@use fileoptions_unix_permissions
//@use fileoptions_large_file
//@use fileoptions_with_deprecated_encryption
}
//@use validate_extra_data
//@use clamp_opt
} // verus!
fn main() {}
