// U7b: src/write.rs -- raw copy, append and Drop of ZipWriter (C13, C14, C01, C11, C12, C05)
use vstd::prelude::*;
use vstd::std_specs::convert::IntoSpec;
use std::borrow::Cow;
use std::collections::HashMap;
use std::sync::Arc;
verus! {
//@include shims/io.rs
//@include shims/prelude.rs
//@include shims/strings.rs
//@include shims/std_misc.rs
//@include shims/crc32fast.rs
//@include common/types.rs
//@include shims/writer_std.rs
//@include shims/encoders.rs
//@include shims/readers.rs
//@include shims/cp437.rs
//@include spec/seqlemmas.rs
pub mod spec {
    use super::*;
//@include common/spec_consts.rs
//@item src/spec.rs | struct CentralDirectoryEnd
//@item src/spec.rs | struct Zip64CentralDirectoryEndLocator
//@item src/spec.rs | struct Zip64CentralDirectoryEnd
}
use spec::{CentralDirectoryEnd, Zip64CentralDirectoryEndLocator, Zip64CentralDirectoryEnd};
//@item src/write.rs | const EXTRA_FIELD_MAPPING
//@include spec/extra_ok.rs
//@include spec/appnote_end.rs
//@include spec/appnote_headers.rs
//@include spec/extra_walk.rs
//@include spec/parsed.rs
//@include spec/zfd_views.rs
//@include common/writer_types.rs
//@item src/write.rs | struct ZipRawValues
pub mod zip_writer {
    use super::*;
//@item src/write.rs | mod zip_writer | struct ZipWriter
}
pub use zip_writer::ZipWriter;
//@include common/writer_inv.rs

// ---- reader-side types and contract-only functions (proved in U4, U6, U8, U8b)
//@item src/read.rs | enum CryptoReader
//@item src/read.rs | enum ZipFileReader
//@item src/crc32.rs | struct Crc32Reader
//@item src/read.rs | struct ZipFile
pub open spec fn cow_val<'a>(c: Cow<'a, ZipFileData>) -> ZipFileData { match c { Cow::Borrowed(b) => *b, Cow::Owned(o) => o } }
pub open spec fn unix_mode_of(f: ZipFileData) -> Option<u32> {
    if f.external_attributes == 0 { None } else {
        match f.system {
            System::Unix => Some(f.external_attributes >> 16),
            System::Dos => {
                let base = if 0x10 == (f.external_attributes & 0x10) { ffi::S_IFDIR | 0o0775 } else { ffi::S_IFREG | 0o0664 };
                Some(if 0x01 == (f.external_attributes & 0x01) { base & 0o0555 } else { base })
            }
            _ => None,
        }
    }
}
// how many undecoded bytes the entry's raw reader still has to deliver (the Take limit set by find_content),
// and whether the underlying source ends before that (then a copy is short and the archive was truncated)
pub uninterp spec fn raw_remaining(r: DynRead) -> u64;
pub uninterp spec fn raw_src_short(r: DynRead) -> bool;
pub uninterp spec fn zf_short(z: ZipFile) -> bool;
pub open spec fn zf_raw_limit(z: ZipFile) -> u64 {
    match z.reader {
        ZipFileReader::Raw(t) => t.limit,
        ZipFileReader::NoReader => match z.crypto_reader {
            Some(CryptoReader::Plaintext(t)) => t.limit,
            Some(CryptoReader::ZipCrypto(v)) => v.g_file().limit,
            Some(CryptoReader::Aes { reader, .. }) => reader.g_reader().limit,
            None => 0,
        },
        _ => 0,
    }
}
impl<'a> ZipFile<'a> {
//@use zipfile_compressed_size nobody
//@use zipfile_size nobody
//@use zipfile_last_modified nobody
//@use zipfile_compression nobody
//@use zipfile_crc32 nobody
//@use zipfile_unix_mode nobody
//@use zipfile_name nobody
// ASSUMED (the body coerces `&mut self.reader` to `&mut dyn Read`): the raw reader is the entry's bounded,
// undecoded byte stream (ZipFileReader::Raw / CryptoReader::into_inner: proved in U8)
//@fn zipfile_get_raw_reader
//@| fn: src/read.rs | impl<'a> ZipFile<'a> | fn get_raw_reader
//@| attr: #[verifier::external_body]
//@| ret: r
//@| ensures:
//@|     raw_remaining(r) == zf_raw_limit(*old(self)), raw_src_short(r) == zf_short(*old(self)),
//@end
}
impl CentralDirectoryEnd {
//@use cde_find_and_parse nobody
}
pub mod zip_archive {
    use super::*;
    use std::collections::HashMap;
    use std::sync::Arc;
//@item src/read.rs | mod zip_archive | struct Shared
//@item src/read.rs | mod zip_archive | struct ZipArchive
}
pub use zip_archive::ZipArchive;
impl<R: Read + io::Seek> ZipArchive<R> {
//@use za_get_directory_counts nobody
}
//@use central_header_to_zip_file nobody
impl FileOptions {
//@use fileoptions_compression_method nobody
//@use fileoptions_last_modified_time nobody
//@use fileoptions_unix_permissions nobody
//@use fileoptions_large_file nobody
}
// ASSUMED (reads the clock through the `time` crate): the default options; the timestamp is a valid DateTime
// (TryFrom accepts exactly 1980..=2107 and DateTime::default() is 1980: Kani group types)
impl Default for FileOptions {
    #[verifier::external_body]
    fn default() -> (r: FileOptions)
        ensures r.compression_method is Deflated, r.compression_level is None, r.permissions is None, !r.large_file,
            r.encrypt_with is None, 1980 <= r.last_modified_time.year <= 2107
    { unimplemented!() }
}
impl<W: Write + io::Seek> ZipWriter<W> {
//@use zw_start_entry nobody
//@use zw_finalize nobody
}
impl<W: Write + io::Seek> GenericZipWriter<W> {
//@use gzw_is_closed nobody
}
// T7x in raw_copy_file_rename: `io::copy(file.get_raw_reader(), self)`.
// ASSUMED (std::io::copy = read until Ok(0), write_all each chunk) in terms of ZipWriter::write's proved contract
#[verifier::external_body]
fn shim_copy_raw<'b, W: Write + io::Seek>(src: DynRead<'b>, w: &mut ZipWriter<W>) -> (r: io::Result<u64>)
    requires zw_ready(old(w)), old(w).writing_to_file, !old(w).writing_to_extra_field,
    ensures
        zw_wf(final(w)) && (zw_room(final(w)) || zw_faulted(final(w)) || final(w).inner is Closed),
        final(w).files@ == old(w).files@,
        final(w).writing_to_file == old(w).writing_to_file && final(w).writing_to_extra_field == old(w).writing_to_extra_field
            && final(w).writing_to_central_extra_field_only == old(w).writing_to_central_extra_field_only
            && final(w).writing_raw == old(w).writing_raw && final(w).comment == old(w).comment,
        r is Ok ==> gzw_method(final(w).inner) == gzw_method(old(w).inner),
        r matches Ok(n) ==> final(w).stats.bytes_written == old(w).stats.bytes_written + n
            && (n == raw_remaining(src) || raw_src_short(src)),
{ unimplemented!() }

//@impl src/write.rs | impl<W: Write + io::Seek> ZipWriter<W>
impl<W: Write + io::Seek> ZipWriter<W> {
//@use zw_raw_copy_file_rename
//@use zw_raw_copy_file
}
// ---- append
pub open spec fn cd_pos(d: Seq<u8>, start: int, i: int) -> int
    decreases i
{ if i <= 0 { start } else { cd_pos(d, start, i - 1) + cdh_len(d, cd_pos(d, start, i - 1)) } }
pub open spec fn dir_parsed(d: Seq<u8>, start: int, files: Seq<ZipFileData>, aoff: u64) -> bool {
    forall|j: int| 0 <= j < files.len() ==> cdh_at(d, #[trigger] cd_pos(d, start, j))
        && parsed_matches(files[j], dec_cdh(d, cd_pos(d, start, j)), cd_pos(d, start, j) as u64, aoff)
}
pub open spec fn dir_start_of(files: Seq<ZipFileData>) -> int { if files.len() > 0 { files[0].central_header_start as int } else { 0 } }
pub uninterp spec fn append_offset(files: Seq<ZipFileData>, d: Seq<u8>) -> u64;
// T7x in new_append: `(0..n).map(|_| central_header_to_zip_file(..)).collect::<Result<Vec<_>, _>>()?`
// ASSUMED: collect of n calls = the first Err, or the Ok values in order; the effect of the n calls is the loop
// proved for ZipArchive::new in unit U8b (same callee contract), restated here
#[verifier::external_body]
fn shim_collect_central<R: Read + io::Seek>(reader: &mut R, archive_offset: u64, n: usize) -> (r: ZipResult<Vec<ZipFileData>>)
    requires dev_ok(old(reader)),
    ensures
        rd_step(old(reader), final(reader)),
        r is Ok ==> final(reader).g_fault() == old(reader).g_fault(),
        r matches Ok(files) ==> files@.len() == n && dir_parsed(old(reader).g_bytes(), old(reader).g_pos(), files@, archive_offset),
{ unimplemented!() }
// parsed entries carry DOS times, whose year is at least 1980 (DateTime::from_msdos, proved in U6)
pub proof fn lemma_parsed_files_ok(d: Seq<u8>, start: int, files: Seq<ZipFileData>, aoff: u64)
    requires dir_parsed(d, start, files, aoff)
    ensures files_ok(files)
{
    assert forall|i: int| 0 <= i < files.len() implies (#[trigger] files[i]).last_modified_time.year >= 1980 by {
        let h = dec_cdh(d, cd_pos(d, start, i));
        assert(parsed_matches(files[i], h, cd_pos(d, start, i) as u64, aoff));
        assert(files[i].last_modified_time == msdos_dt(h.date, h.time));
        let dd: u16 = h.date;
        assert(((dd & 0b1111111000000000) >> 9) <= 127) by(bit_vector);
    }
}
// T14: Drop::drop verified as an inherent method so it can carry the representation invariant as precondition.
// It calls the same `finalize` as finish() from the same state unless the writer is already closed (C01: identical bytes).
//@impl src/write.rs | impl<W: Write + io::Seek> Drop for ZipWriter<W>
impl<W: Write + io::Seek> ZipWriter<W> {
//@use zw_drop
}
// T7 `stderr`
#[verifier::external_body]
fn shim_stderr_note() { }
//@impl src/write.rs | impl<A: Read + Write + io::Seek> ZipWriter<A>
impl<A: Read + Write + io::Seek> ZipWriter<A> {
//@use zw_new_append
}
} // verus!
fn main() {}
