// U7b: src/write.rs -- raw copy, append and Drop of ZipWriter (C13, C14, C01, C11, C12, C05)
use vstd::prelude::*;
use vstd::std_specs::convert::IntoSpec;
use std::borrow::Cow;
use std::collections::HashMap;
use std::sync::Arc;
verus! {
//@include shims/io.rs
//@include shims/prelude.rs
//@include shims/strings.rs
//@include shims/std_misc.rs
//@include shims/crc32fast.rs
//@include common/types.rs
//@include shims/writer_std.rs
//@include shims/encoders.rs
//@include shims/readers.rs
//@include shims/cp437.rs
//@include spec/seqlemmas.rs
pub mod spec {
    use super::*;
//@include common/spec_consts.rs
//@item src/spec.rs | struct CentralDirectoryEnd
//@item src/spec.rs | struct Zip64CentralDirectoryEndLocator
//@item src/spec.rs | struct Zip64CentralDirectoryEnd
}
use spec::{CentralDirectoryEnd, Zip64CentralDirectoryEndLocator, Zip64CentralDirectoryEnd};
//@item src/write.rs | const EXTRA_FIELD_MAPPING
//@include spec/extra_ok.rs
//@include spec/appnote_end.rs
//@include spec/appnote_headers.rs
//@include spec/dos_datetime.rs
//@include spec/extra_walk.rs
//@include spec/parsed.rs
//@include spec/zfd_views.rs
//@include spec/dir_written.rs
//@include common/writer_types.rs
//@item src/write.rs | struct ZipRawValues
pub mod zip_writer {
    use super::*;
//@item src/write.rs | mod zip_writer | struct ZipWriter
}
pub use zip_writer::ZipWriter;
//@include common/writer_inv.rs

// ---- reader-side types and contract-only functions (proved in U4, U6, U8, U8b)
//@item src/read.rs | enum CryptoReader
//@item src/read.rs | enum ZipFileReader
//@item src/crc32.rs | struct Crc32Reader
//@item src/read.rs | struct ZipFile
//@include spec/entry_views.rs
impl<'a> Dev for ZipFileReader<'a> {
    open spec fn g_ready(&self) -> bool { !(self is NoReader) }
    open spec fn g_dev(&self) -> bool { false }
    open spec fn g_bytes(&self) -> Seq<u8> { Seq::empty() }
    open spec fn g_pos(&self) -> int { 0 }
    open spec fn g_fault(&self) -> bool { false }
}
impl<'a> Read for ZipFileReader<'a> {
//@use zipfilereader_read nobody
}
// the bytes a raw copy has to transfer: the next `limit` bytes of the source device, or what is left of it if the source
// ends early (a truncated archive)
pub open spec fn take_avail<'a>(t: Take<DynRead<'a>>) -> int {
    let left = t.inner.g_bytes().len() - t.inner.g_pos();
    if left <= 0 { 0 } else if t.limit as int <= left { t.limit as int } else { left }
}
pub open spec fn pre_data(d: Seq<u8>, p: int, n: int) -> Seq<u8> { if n <= 0 { Seq::<u8>::empty() } else { at(d, p, n) } }
pub open spec fn take_data<'a>(t: Take<DynRead<'a>>) -> Seq<u8> {
    if take_avail(t) == 0 { Seq::<u8>::empty() } else { at(t.inner.g_bytes(), t.inner.g_pos(), take_avail(t)) }
}
pub open spec fn zf_raw_limit(z: ZipFile) -> u64 { zf_raw_take(z).limit }
impl<'a> ZipFile<'a> {
//@use zipfile_compressed_size nobody
//@use zipfile_size nobody
//@use zipfile_last_modified nobody
//@use zipfile_compression nobody
//@use zipfile_crc32 nobody
//@use zipfile_unix_mode nobody
//@use zipfile_name nobody
//@use zipfile_get_raw_reader nobody
//@use zipfile_encrypted nobody
//@use zipfile_is_dir nobody
}
impl CentralDirectoryEnd {
//@use cde_find_and_parse nobody
}
pub mod zip_archive {
    use super::*;
    use std::collections::HashMap;
    use std::sync::Arc;
//@item src/read.rs | mod zip_archive | struct Shared
//@item src/read.rs | mod zip_archive | struct ZipArchive
}
pub use zip_archive::ZipArchive;
impl<R: Read + io::Seek> ZipArchive<R> {
//@use za_get_directory_counts nobody
}
//@use central_header_to_zip_file nobody
impl FileOptions {
//@use fileoptions_compression_method nobody
//@use fileoptions_last_modified_time nobody
//@use fileoptions_unix_permissions nobody
//@use fileoptions_large_file nobody
}
// ASSUMED (reads the clock through the `time` crate): the default options; the timestamp is a valid DateTime
// (TryFrom accepts exactly 1980..=2107 and DateTime::default() is 1980: Kani group types)
impl Default for FileOptions {
    #[verifier::external_body]
    fn default() -> (r: FileOptions)
        ensures r.compression_method is Deflated, r.compression_level is None, r.permissions is None, !r.large_file,
            r.encrypt_with is None, 1980 <= r.last_modified_time.year <= 2107
    { unimplemented!() }
}
impl<W: Write + io::Seek> ZipWriter<W> {
//@use zw_start_entry nobody
//@use zw_finalize nobody
}
impl<W: Write + io::Seek> GenericZipWriter<W> {
//@use gzw_is_closed nobody
}
impl<W: Write + io::Seek> Write for ZipWriter<W> {
//@use zw_write nobody
//@use zw_flush nobody
}
//@include common/writer_std_models.rs
// T7x in raw_copy_file_rename: `io::copy(file.get_raw_reader(), self)`.
// TRANSCRIPTION of std::io::copy (generic path, library/std/src/io/copy.rs `stack_buffer_copy`): read into an 8 KiB stack
// buffer until Ok(0), write_all every chunk, count the bytes; the retry on ErrorKind::Interrupted is omitted (the I/O
// model has no such kind).  The body is VERIFIED against ZipFileReader::read (U8) and the write_all transcription, so
// "every byte is copied, unchanged, in order" is derived; only the transcription itself is trusted.
fn shim_copy_raw<'b, W: Write + io::Seek>(src: &mut ZipFileReader<'b>, w: &mut ZipWriter<W>) -> (r: io::Result<u64>)
    requires
        (*old(src)) is Raw, dev_ok(&(*old(src))->Raw_0.inner),
        zw_ready(old(w)), old(w).writing_to_file, !old(w).writing_to_extra_field, old(w).stats.bytes_written == 0,
        (*old(src))->Raw_0.inner.g_dev(),
    ensures
        zw_wf(final(w)) && (zw_room(final(w)) || zw_faulted(final(w)) || final(w).inner is Closed),
        final(w).files@.len() == old(w).files@.len(),
        old(w).files@.len() > 0 ==> entry_identity_kept(old(w).files@.last(), final(w).files@.last()),
        forall|i: int| 0 <= i < old(w).files@.len() - 1 ==> final(w).files@[i] == old(w).files@[i],
        final(w).writing_to_file == old(w).writing_to_file && final(w).writing_to_extra_field == old(w).writing_to_extra_field
            && final(w).writing_to_central_extra_field_only == old(w).writing_to_central_extra_field_only
            && final(w).writing_raw == old(w).writing_raw && final(w).comment == old(w).comment,
        r is Ok ==> gzw_method(final(w).inner) == gzw_method(old(w).inner),
        r is Ok && zw_clean(old(w)) ==> zw_clean(final(w)),
        final(w).files@ == old(w).files@,
        // what was copied: exactly the bytes the bounded source still had, from its position, in order
        r matches Ok(n) ==> {
            let t0 = (*old(src))->Raw_0;
            let data = take_data(t0);
            &&& n as int == take_avail(t0)
            &&& final(w).stats.bytes_written == n && final(w).stats.hasher@ == old(w).stats.hasher@ + data
            &&& (gzw_plain(old(w).inner) ==> gzw_plain(final(w).inner)
                    && (gzw_plain_sink(old(w).inner).g_dev() ==> wr_n(&gzw_plain_sink(old(w).inner), &gzw_plain_sink(final(w).inner), true, data)))
        },
{
    let ghost t0 = (*src)->Raw_0;
    let ghost d = t0.inner.g_bytes();
    let ghost p0 = t0.inner.g_pos();
    let mut buffer = [0u8; 8192];
    let mut len: u64 = 0;
    proof {
        if gzw_plain(w.inner) { lemma_put_empty_any(gzw_plain_sink(w.inner).g_bytes(), gzw_plain_sink(w.inner).g_pos()); }
        lemma_add_empty();
    }
    loop
        invariant
            *src is Raw, (*src)->Raw_0.inner.g_dev(), dev_ok(&(*src)->Raw_0.inner), (*src)->Raw_0.inner.g_bytes() == d,
            !(*src)->Raw_0.inner.g_fault() || true,
            (*src)->Raw_0.inner.g_pos() == p0 + len, (*src)->Raw_0.limit == t0.limit - len, len <= t0.limit, p0 + len <= d.len() || len == 0,
            0 <= p0, d.len() <= MAX_OFF, buffer@.len() == 8192, t0.inner.g_bytes() == d, t0.inner.g_pos() == p0,
            zw_ready(w), zw_wf(old(w)), zw_room(w) || zw_faulted(w) || w.inner is Closed,
            w.files@.len() == old(w).files@.len(),
            old(w).files@.len() > 0 ==> entry_identity_kept(old(w).files@.last(), w.files@.last()),
            forall|i: int| 0 <= i < old(w).files@.len() - 1 ==> w.files@[i] == old(w).files@[i],
            w.writing_to_file == old(w).writing_to_file && w.writing_to_extra_field == old(w).writing_to_extra_field
                && w.writing_to_central_extra_field_only == old(w).writing_to_central_extra_field_only
                && w.writing_raw == old(w).writing_raw && w.comment == old(w).comment,
            old(w).writing_to_file, !old(w).writing_to_extra_field, old(w).stats.bytes_written == 0,
            gzw_method(w.inner) == gzw_method(old(w).inner),
            zw_clean(old(w)) ==> zw_clean(w), w.files@ == old(w).files@,
            w.stats.bytes_written == len, w.stats.hasher@ == old(w).stats.hasher@ + pre_data(d, p0, len as int),
            gzw_plain(old(w).inner) ==> gzw_plain(w.inner)
                && (gzw_plain_sink(old(w).inner).g_dev() ==> wr_n(&gzw_plain_sink(old(w).inner), &gzw_plain_sink(w.inner), true, pre_data(d, p0, len as int))),
        ensures
            len as int == take_avail(t0), *src is Raw, pre_data(d, p0, len as int) == take_data(t0),
            w.stats.bytes_written == len, w.stats.hasher@ == old(w).stats.hasher@ + pre_data(d, p0, len as int),
            gzw_plain(old(w).inner) ==> gzw_plain(w.inner)
                && (gzw_plain_sink(old(w).inner).g_dev() ==> wr_n(&gzw_plain_sink(old(w).inner), &gzw_plain_sink(w.inner), true, pre_data(d, p0, len as int))),
        decreases (*src)->Raw_0.limit,
    {
        let ghost w_before = *w;
        let n = match src.read(&mut buffer) {
            Ok(n) => n,
            Err(e) => { return Err(e); }
        };
        if n == 0 {
            proof {
                // end of the bounded source: the limit is used up or the device has no more bytes
                let left = d.len() - p0;
                assert((*src)->Raw_0.limit == 0 || p0 + len >= d.len());
                assert(t0.inner.g_bytes() == d && t0.inner.g_pos() == p0);
                if len == 0 {
                    assert(t0.limit == 0 || left <= 0);
                } else {
                    assert(p0 + len <= d.len());
                    assert(left >= len);
                    assert(t0.limit == len || left == len);
                }
                assert(len as int == take_avail(t0));
                assert(pre_data(d, p0, len as int) == take_data(t0));
            }
            break;
        }
        len += n as u64;
        match shim_zw_write_all(w, &buffer[..n]) {
            Ok(()) => {}
            Err(e) => { return Err(e); }
        }
        proof {
            let k = (len - n) as int;
            assert(buffer@.subrange(0, n as int) == at(d, p0 + k, n as int));
            assert(pre_data(d, p0, k) + at(d, p0 + k, n as int) =~= pre_data(d, p0, len as int));
            if gzw_plain(old(w).inner) && gzw_plain_sink(old(w).inner).g_dev() {
                assert(maybe_ok(gzw_sink(old(w).inner)));
                assert(dev_ok(&gzw_plain_sink(old(w).inner)));
                lemma_wr_n_compose(&gzw_plain_sink(old(w).inner), &gzw_plain_sink(w_before.inner), &gzw_plain_sink(w.inner),
                                   pre_data(d, p0, k), at(d, p0 + k, n as int));
            }
        }
    }
    Ok(len)
}

impl DateTime {
//@use dt_datepart nobody
//@use dt_timepart nobody
//@use dt_from_date_and_time nobody
//@use dt_year nobody
//@use dt_month nobody
//@use dt_day nobody
//@use dt_hour nobody
//@use dt_minute nobody
//@use dt_second nobody
}
//@impl src/write.rs | impl<W: Write + io::Seek> ZipWriter<W>
impl<W: Write + io::Seek> ZipWriter<W> {
//@use zw_raw_copy_file_rename
//@use zw_raw_copy_file
}
// ---- append
//@include spec/dir_parsed.rs
//@include spec/dir_count.rs
pub open spec fn dir_start_of(files: Seq<ZipFileData>) -> int { if files.len() > 0 { files[0].central_header_start as int } else { 0 } }
pub uninterp spec fn append_offset(files: Seq<ZipFileData>, d: Seq<u8>) -> u64;
// parsed entries carry DOS times, whose year is at least 1980 (DateTime::from_msdos, proved in U6)
pub proof fn lemma_parsed_files_ok(d: Seq<u8>, start: int, files: Seq<ZipFileData>, aoff: u64)
    requires dir_parsed_append(d, start, files, aoff)
    ensures files_ok(files)
{
    assert forall|i: int| 0 <= i < files.len() implies (#[trigger] files[i]).last_modified_time.year >= 1980 by {
        let h = dec_cdh(d, cd_pos(d, start, i));
        assert(parsed_matches_but_extra(files[i], h, cd_pos(d, start, i) as u64, aoff));
        assert(files[i].last_modified_time == msdos_dt(h.date, h.time));
        let dd: u16 = h.date;
        assert(((dd & 0b1111111000000000) >> 9) <= 127) by(bit_vector);
    }
}
// ---- the extra field without its ZIP64 records (F29): shift lemmas for the record walk over a concatenation, then
// "what without_zip64_extra_field returns contains no ZIP64 record" by induction over the records
pub proof fn lemma_has_z64_shift(a: Seq<u8>, b: Seq<u8>, q: int)
    requires 0 <= q <= b.len()
    ensures has_z64(a + b, a.len() + q) == has_z64(b, q)
    decreases b.len() - q
{
    let y = a + b;
    let p = a.len() + q;
    if b.len() - q >= 4 {
        assert(at(y, p, 2) =~= at(b, q, 2));
        assert(at(y, p + 2, 2) =~= at(b, q + 2, 2));
        assert(xlen(y, p) == xlen(b, q) && xkind(y, p) == xkind(b, q));
        if xlen(b, q) <= b.len() - q - 4 {
            lemma_has_z64_shift(a, b, q + 4 + xlen(b, q));
        }
    }
}
// @props: C13 C02 C08 -- the extra field new_append keeps contains no ZIP64 record, so finalize emits exactly the regenerated one
pub proof fn lemma_strip_has_no_z64(x: Seq<u8>, pos: int)
    requires 0 <= pos <= x.len()
    ensures !has_z64(strip_z64(x, pos), 0)
    decreases x.len() - pos
{
    let y = strip_z64(x, pos);
    if x.len() - pos >= 4 {
        let e = xend(x, pos);
        lemma_strip_has_no_z64(x, e);
        let rest = strip_z64(x, e);
        if xkind(x, pos) != 0x0001 {
            let rec = x.subrange(pos, e);
            assert(y == rec + rest);
            assert(at(y, 0, 2) =~= at(x, pos, 2));
            assert(at(y, 2, 2) =~= at(x, pos + 2, 2));
            assert(xkind(y, 0) == xkind(x, pos) && xlen(y, 0) == xlen(x, pos));
            if xlen(x, pos) > x.len() - pos - 4 {
                // the record overruns the field: it is the last thing kept, and the walk stops at it
                assert(rest =~= Seq::<u8>::empty());
                assert(y =~= rec);
            } else {
                lemma_has_z64_shift(rec, rest, 0);
                assert(rec.len() == 4 + xlen(x, pos));
            }
        } else {
            assert(y =~= rest);
        }
    }
}
//@use without_zip64_extra_field optional
// T14: Drop::drop verified as an inherent method so it can carry the representation invariant as precondition.
// It calls the same `finalize` as finish() from the same state unless the writer is already closed (C01: identical bytes).
//@impl src/write.rs | impl<W: Write + io::Seek> Drop for ZipWriter<W>
impl<W: Write + io::Seek> ZipWriter<W> {
//@use zw_drop
}
// T7 `stderr`
#[verifier::external_body]
fn shim_stderr_note() { }
//@impl src/write.rs | impl<A: Read + Write + io::Seek> ZipWriter<A>
impl<A: Read + Write + io::Seek> ZipWriter<A> {
//@use zw_new_append
}
} // verus!
fn main() {}
