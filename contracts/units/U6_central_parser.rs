// U6: src/read.rs central directory header parser and extra-field walk (C01, C03, C05, C08, C11, C16, C19)
use vstd::prelude::*;
verus! {
//@include shims/io.rs
//@include shims/prelude.rs
//@include shims/strings.rs
//@include shims/std_misc.rs
//@include shims/cp437.rs
//@include common/types.rs
pub mod spec {
//@include common/spec_consts.rs
}
pub open spec fn sig_at(d: Seq<u8>, p: int, sig: u32) -> bool { inb(d, p, 4) && de32(at(d, p, 4)) == sig }
//@include spec/appnote_headers.rs
//@include spec/dos_datetime.rs
//@include spec/extra_walk.rs
//@include spec/parsed.rs
//@include spec/zfd_views.rs
//@include spec/text_roundtrip.rs

//@impl src/types.rs | impl System
impl System {
//@use system_from_u8
}
//@impl src/compression.rs | impl CompressionMethod
impl CompressionMethod {
//@use cm_from_u16
}
//@impl src/types.rs | impl DateTime
impl DateTime {
//@use dt_from_msdos
}
//@use parse_extra_field
//@use central_header_to_zip_file_inner
//@use central_header_to_zip_file
} // verus!
fn main() {}
