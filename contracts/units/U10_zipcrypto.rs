// U10: src/zipcrypto.rs -- ZipCrypto at stream level (C15, C09).  The byte step (ZipCryptoKeys::{new, update, stream_byte,
// decrypt_byte, encrypt_byte, crc32}) is ASSUMED here over the uninterpreted zc_update / zc_stream and is what the Kani
// group `zipcrypto` proves on the real code; everything that loops over bytes or does I/O is proved here by Verus.
use vstd::prelude::*;
verus! {
//@include shims/io.rs
//@include shims/zipcrypto_spec.rs

pub mod zipcrypto {
use vstd::prelude::*;
use vstd::std_specs::iter::IteratorSpec;   // ghost: remaining()/decrease() of std's slice iterators (vstd's for-loop protocol)
use super::*;
use ::std::num::Wrapping;
// T8: src/zipcrypto.rs spells the I/O traits `std::io::Read` / `std::io::Write` / `std::io::Result`; inside this module
// the name `std` resolves to the shim I/O model (import only, the extracted text is unchanged)
pub mod std { pub use crate::io; }

//@item src/zipcrypto.rs | struct ZipCryptoKeys
impl ZipCryptoKeys {
    // ghost: the three keys as numbers
    pub open spec fn view(&self) -> Keys { Keys { k0: w32(self.key_0), k1: w32(self.key_1), k2: w32(self.key_2) } }
}
//@impl src/zipcrypto.rs | impl ZipCryptoKeys
impl ZipCryptoKeys {
// ---- assumed contracts: proved by Kani group `zipcrypto`
//@use zc_keys_new nobody
//@use zc_keys_update nobody
//@use zc_keys_stream_byte nobody
//@use zc_keys_decrypt_byte nobody
//@use zc_keys_encrypt_byte nobody
//@use zc_keys_crc32 nobody
// ---- proved here
//@use zc_keys_derive
}

//@item src/zipcrypto.rs | struct ZipCryptoReader
//@item src/zipcrypto.rs | enum ZipCryptoValidator
//@item src/zipcrypto.rs | struct ZipCryptoWriter
//@item src/zipcrypto.rs | struct ZipCryptoReaderValid

// the byte the 12th header byte is compared with: high byte of the CRC (PKZIP) or of the DOS time (Info-ZIP, bit 3 set)
pub open spec fn zc_check_byte(v: ZipCryptoValidator) -> u8 {
    match v {
        ZipCryptoValidator::PkzipCrc32(crc) => (crc >> 24) as u8,
        ZipCryptoValidator::InfoZipMsdosTime(t) => (t >> 8) as u8,
    }
}
// `hdr` is what the header read delivered: 12 bytes, for a device the bytes at its position
pub open spec fn header_read_from<R: Read>(hdr: Seq<u8>, rd: &R) -> bool {
    hdr.len() == 12 && (rd.g_dev() ==> hdr == at(rd.g_bytes(), rd.g_pos(), 12))
}
// what `validate` decides from the decrypted header: wrong password iff its 12th byte is not the check byte; on success
// the reader continues with the keys that absorbed the 12 plaintext header bytes
pub open spec fn zc_validate_outcome<R: Read>(k: Keys, hdr: Seq<u8>, v: ZipCryptoValidator, o: Option<ZipCryptoReaderValid<R>>) -> bool {
    let plain = zc_dec(k, hdr);
    &&& ((o is None) <==> (plain[11] != zc_check_byte(v)))
    &&& (o matches Some(x) ==> x.reader.keys@ == zc_absorb(k, plain))
}
pub open spec fn is_ciphertext_of_len(ct: Seq<u8>, n: int) -> bool { ct.len() == n }
// one successful `read` that returned n bytes whose ciphertext was ct
pub open spec fn zc_read_step<R: Read>(o: &ZipCryptoReaderValid<R>, f: &ZipCryptoReaderValid<R>, fb: Seq<u8>, n: int, ct: Seq<u8>) -> bool {
    &&& ct.len() == n
    &&& (o.reader.file.g_dev() && n > 0 ==> ct == at(o.reader.file.g_bytes(), o.reader.file.g_pos(), n))
    &&& fb.subrange(0, n) == zc_dec(o.reader.keys@, ct)
    &&& f.reader.keys@ == zc_absorb(o.reader.keys@, zc_dec(o.reader.keys@, ct))
}

//@impl src/zipcrypto.rs | impl<R: std::io::Read> ZipCryptoReader<R>
impl<R: std::io::Read> ZipCryptoReader<R> {
//@use zc_reader_new
//@use zc_reader_validate
}

// ghost: the buffering ZipCrypto writer is not a device
impl<W> Dev for ZipCryptoWriter<W> {
    open spec fn g_dev(&self) -> bool { false }
    open spec fn g_bytes(&self) -> Seq<u8> { Seq::empty() }
    open spec fn g_pos(&self) -> int { 0 }
    open spec fn g_fault(&self) -> bool { false }
}
//@impl src/zipcrypto.rs | impl<W: std::io::Write> ZipCryptoWriter<W>
impl<W: std::io::Write> ZipCryptoWriter<W> {
//@use zc_writer_finish
}
// (contract files shared with unit U7a)
//@impl src/zipcrypto.rs | impl<W: std::io::Write> std::io::Write for ZipCryptoWriter<W>
impl<W: std::io::Write> std::io::Write for ZipCryptoWriter<W> {
//@use zcwriter_write
//@use zcwriter_flush
}

// ghost: an adapter is not a device; it can be read whenever the file underneath can
impl<R: Read> Dev for ZipCryptoReaderValid<R> {
    open spec fn g_dev(&self) -> bool { false }
    open spec fn g_bytes(&self) -> Seq<u8> { Seq::empty() }
    open spec fn g_pos(&self) -> int { 0 }
    open spec fn g_fault(&self) -> bool { false }
    open spec fn g_ready(&self) -> bool { self.reader.file.g_ready() }
}
//@impl src/zipcrypto.rs | impl<R: std::io::Read> std::io::Read for ZipCryptoReaderValid<R>
impl<R: std::io::Read> std::io::Read for ZipCryptoReaderValid<R> {
//@use zc_readervalid_read
}
//@impl src/zipcrypto.rs | impl<R: std::io::Read> ZipCryptoReaderValid<R>
impl<R: std::io::Read> ZipCryptoReaderValid<R> {
//@use zc_readervalid_into_inner
}
} // mod zipcrypto
} // verus!
fn main() {}
