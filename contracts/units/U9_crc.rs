// U9: src/crc32.rs -- the checksum-verifying reader (C04, C09)
use vstd::prelude::*;
verus! {
//@include shims/io.rs
//@include shims/crc32fast.rs

//@item src/crc32.rs | struct Crc32Reader

// ghost: an adapter is not a device
impl<R: Dev> Dev for Crc32Reader<R> {
    open spec fn g_ready(&self) -> bool { self.inner.g_ready() }
    open spec fn g_dev(&self) -> bool { false }
    open spec fn g_bytes(&self) -> Seq<u8> { Seq::empty() }
    open spec fn g_pos(&self) -> int { 0 }
    open spec fn g_fault(&self) -> bool { false }
}

//@impl src/crc32.rs | impl<R> Crc32Reader<R>
impl<R> Crc32Reader<R> {
//@use crc32reader_new
//@use crc32reader_check_matches
//@use crc32reader_into_inner
//@use crc32reader_get_mut optional
}

//@impl src/crc32.rs | impl<R: Read> Read for Crc32Reader<R>
impl<R: Read> Read for Crc32Reader<R> {
//@use crc32reader_read
}

// ---- C04 as a lemma over the contract of `read`:
// a history of reads, each satisfying the contract, that ends with Ok(0) on a
// non-empty buffer has crc32(all bytes returned) == declared check (unless AE-2).
pub struct RStep { pub seen_before: Seq<u8>, pub got: Seq<u8>, pub seen_after: Seq<u8>, pub eof_ok: bool }
pub open spec fn step_ok(check: u32, ae2: bool, s: RStep) -> bool {
    s.seen_after == s.seen_before + s.got
    && (s.eof_ok ==> s.got.len() == 0 && (ae2 || check == crc32(s.seen_before)))
}
pub open spec fn concat(h: Seq<RStep>) -> Seq<u8> decreases h.len() {
    if h.len() == 0 { Seq::empty() } else { concat(h.drop_last()) + h.last().got }
}
pub open spec fn chained(check: u32, ae2: bool, h: Seq<RStep>) -> bool {
    forall|i: int| 0 <= i < h.len() ==> step_ok(check, ae2, #[trigger] h[i])
        && (i == 0 ==> h[i].seen_before == Seq::<u8>::empty())
        && (i > 0 ==> h[i].seen_before == h[i - 1].seen_after)
}
pub proof fn lemma_seen_is_concat(check: u32, ae2: bool, h: Seq<RStep>)
    requires chained(check, ae2, h), h.len() > 0
    ensures h.last().seen_after == concat(h)
    decreases h.len()
{
    if h.len() == 1 {
        reveal_with_fuel(concat, 2);
        assert(h.drop_last().len() == 0);
        assert(concat(h.drop_last()) =~= Seq::<u8>::empty());
        assert(h.last().seen_before == Seq::<u8>::empty());
        assert(h.last().seen_after =~= concat(h));
    } else {
        let p = h.drop_last();
        assert(chained(check, ae2, p)) by {
            assert forall|i: int| 0 <= i < p.len() implies step_ok(check, ae2, #[trigger] p[i])
                && (i == 0 ==> p[i].seen_before == Seq::<u8>::empty())
                && (i > 0 ==> p[i].seen_before == p[i - 1].seen_after) by {
                assert(p[i] == h[i]);
                if i > 0 { assert(p[i - 1] == h[i - 1]); }
            }
        }
        lemma_seen_is_concat(check, ae2, p);
        assert(h[h.len() - 1].seen_before == h[h.len() - 2].seen_after);
        assert(p.last() == h[h.len() - 2]);
    }
}
// @props: C04 -- any history of reads ending at end-of-data returned bytes whose CRC-32 is the declared one (or the entry is AE-2)
pub proof fn lemma_completed_read_has_matching_crc(check: u32, ae2: bool, h: Seq<RStep>)
    requires chained(check, ae2, h), h.len() > 0, h.last().eof_ok, !ae2
    ensures crc32(concat(h)) == check
{
    lemma_seen_is_concat(check, ae2, h);
    assert(h.last().seen_after == h.last().seen_before + h.last().got);
    assert(h.last().got.len() == 0);
    assert(h.last().seen_after =~= h.last().seen_before);
}
} // verus!
fn main() {}
