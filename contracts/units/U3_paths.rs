// U3: path sanitisation (C06, and the precondition source for C07)
use vstd::prelude::*;
verus! {
//@include shims/path.rs
//@include shims/std_misc.rs
//@include shims/str_ops.rs
//@include common/types.rs
//@include spec/paths.rs

pub open spec fn name_components(name: Seq<char>) -> Seq<path::Component<'static>> { path::spec_components(path::spec_path_of(name)) }

//@impl src/types.rs | impl ZipFileData
impl ZipFileData {
//@use zfd_enclosed_name
//@use zfd_file_name_sanitized
}

// C06 for enclosed_name as one statement: whatever it returns, joined onto any base, stays inside that base
// @props: C06 C07 -- whatever enclosed_name returns, joined onto any base, stays inside it
pub proof fn lemma_enclosed_name_contained(name: Seq<char>, base: Seq<int>, k: int)
    requires !name.contains('\0'), safe(name_components(name)), 0 <= k <= name_components(name).len()
    ensures resolve(base, name_components(name), k).subrange(0, base.len() as int) == base,
            resolve(base, name_components(name), k).len() >= base.len()
{
    lemma_safe_stays_inside(base, name_components(name), k);
}
// C06 for mangled_name as one statement: what it returns is made of ordinary components only and, joined onto any base, stays inside
// @props: C06 -- whatever mangled_name returns, joined onto any base, stays inside it
pub proof fn lemma_mangled_name_contained(name: Seq<char>, base: Seq<int>, k: int)
    requires 0 <= k <= sanitized_components(name).len()
    ensures resolve(base, sanitized_components(name), k).subrange(0, base.len() as int) == base,
            resolve(base, sanitized_components(name), k).len() == base.len() + k,
            forall|i: int| 0 <= i < sanitized_components(name).len() ==> #[trigger] sanitized_components(name)[i] is Normal,
{
    lemma_sanitized_is_safe(name);
    lemma_safe_stays_inside(base, sanitized_components(name), k);
    lemma_depth_of_ordinary(sanitized_components(name), k);
}
} // verus!
fn main() {}
