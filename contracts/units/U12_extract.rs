// U12: extract() of the seekable and the streaming reader (C07), and the visitor loop (C10)
use vstd::prelude::*;
use std::borrow::Cow;
use std::collections::HashMap;
use std::sync::Arc;
verus! {
//@include shims/io.rs
//@include shims/prelude.rs
//@include shims/strings.rs
//@include shims/std_misc.rs
//@include shims/crc32fast.rs
//@include shims/path.rs
//@include common/types.rs
//@include spec/paths.rs
pub open spec fn name_components(name: Seq<char>) -> Seq<path::Component<'static>> { path::spec_components(path::spec_path_of(name)) }
//@include shims/fs.rs
use path::Path;
//@include shims/readers.rs
//@include shims/cp437.rs
pub mod spec {
    use super::*;
//@item src/spec.rs | const LOCAL_FILE_HEADER_SIGNATURE
//@item src/spec.rs | const CENTRAL_DIRECTORY_HEADER_SIGNATURE
}
pub open spec fn sig_at(d: Seq<u8>, p: int, sig: u32) -> bool { inb(d, p, 4) && de32(at(d, p, 4)) == sig }
//@include spec/appnote_headers.rs
//@include spec/extra_walk.rs
//@include spec/parsed.rs

impl ZipFileData {
//@use zfd_enclosed_name nobody
}
//@item src/read.rs | enum CryptoReader
//@item src/read.rs | enum ZipFileReader
//@item src/crc32.rs | struct Crc32Reader
//@item src/read.rs | struct ZipFile
pub open spec fn decodable(m: CompressionMethod) -> bool { m is Stored || m is Deflated || m is Bzip2 || m is Zstd }
pub open spec fn cow_val<'a>(c: Cow<'a, ZipFileData>) -> ZipFileData { match c { Cow::Borrowed(b) => *b, Cow::Owned(o) => o } }
pub open spec fn zf_wf<'a>(z: &ZipFile<'a>) -> bool {
    (z.reader is NoReader ==> z.crypto_reader is Some && decodable(cow_val(z.data).compression_method))
}
#[verifier::external_body]
pub fn shim_cow_ref<'b, 'a>(c: &'b Cow<'a, ZipFileData>) -> (r: &'b ZipFileData)
    ensures *r == cow_val(*c)
{ &**c }
pub open spec fn unix_mode_of(f: ZipFileData) -> Option<u32> {
    if f.external_attributes == 0 { None } else {
        match f.system {
            System::Unix => Some(f.external_attributes >> 16),
            System::Dos => {
                let base = if 0x10 == (f.external_attributes & 0x10) { ffi::S_IFDIR | 0o0775 } else { ffi::S_IFREG | 0o0664 };
                Some(if 0x01 == (f.external_attributes & 0x01) { base & 0o0555 } else { base })
            }
            _ => None,
        }
    }
}
#[verifier::external_body]
pub fn shim_string_as_str<'b>(s: &'b String) -> (r: &'b str) ensures r@ == s@ { s.as_str() }
impl<'a> Dev for ZipFile<'a> {
    open spec fn g_ready(&self) -> bool { zf_wf(self) }
    open spec fn g_dev(&self) -> bool { false }
    open spec fn g_bytes(&self) -> Seq<u8> { Seq::empty() }
    open spec fn g_pos(&self) -> int { 0 }
    open spec fn g_fault(&self) -> bool { false }
}
impl<'a> Read for ZipFile<'a> {
//@use zipfile_read nobody
}
//@impl src/read.rs | impl<'a> ZipFile<'a>
impl<'a> ZipFile<'a> {
//@use zipfile_enclosed_name
//@use zipfile_name nobody
//@use zipfile_unix_mode nobody
}
pub mod zip_archive {
    use super::*;
//@item src/read.rs | mod zip_archive | struct Shared
//@item src/read.rs | mod zip_archive | struct ZipArchive
}
pub use zip_archive::ZipArchive;
//@impl src/read.rs | impl<R: Read + io::Seek> ZipArchive<R>
impl<R: Read + io::Seek> ZipArchive<R> {
//@use za_len nobody
//@use za_by_index nobody
//@use za_extract
}
} // verus!
fn main() {}
