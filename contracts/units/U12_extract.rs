// U12: extract() of the seekable and the streaming reader (C07), and the visitor loop (C10)
use vstd::prelude::*;
use std::borrow::Cow;
use std::collections::HashMap;
use std::sync::Arc;
verus! {
//@include shims/io.rs
//@include shims/prelude.rs
//@include shims/strings.rs
//@include shims/std_misc.rs
//@include shims/crc32fast.rs
//@include shims/path.rs
//@include common/types.rs
//@include shims/str_ops.rs
//@include spec/paths.rs
pub open spec fn name_components(name: Seq<char>) -> Seq<path::Component<'static>> { path::spec_components(path::spec_path_of(name)) }
//@include shims/fs.rs
use path::Path;
//@include shims/readers.rs
//@include shims/cp437.rs
pub mod spec {
    use super::*;
//@include common/spec_consts.rs
}
pub open spec fn sig_at(d: Seq<u8>, p: int, sig: u32) -> bool { inb(d, p, 4) && de32(at(d, p, 4)) == sig }
//@include spec/appnote_headers.rs
//@include spec/dos_datetime.rs
//@include spec/extra_walk.rs
//@include spec/parsed.rs

impl ZipFileData {
//@use zfd_enclosed_name nobody
//@use zfd_file_name_sanitized nobody
//@use zfd_unix_mode
}
//@item src/read.rs | enum CryptoReader
//@item src/read.rs | enum ZipFileReader
//@item src/crc32.rs | struct Crc32Reader
//@item src/read.rs | struct ZipFile
//@include spec/entry_views.rs
//@include spec/entry_pos.rs
impl<'a> Dev for ZipFile<'a> {
    open spec fn g_ready(&self) -> bool { zf_wf(self) }
    open spec fn g_dev(&self) -> bool { false }
    open spec fn g_bytes(&self) -> Seq<u8> { Seq::empty() }
    open spec fn g_pos(&self) -> int { 0 }
    open spec fn g_fault(&self) -> bool { false }
}
impl<'a> Read for ZipFile<'a> {
//@use zipfile_read nobody
}
//@impl src/read.rs | impl<'a> ZipFile<'a>
impl<'a> ZipFile<'a> {
//@use zipfile_enclosed_name
//@use zipfile_mangled_name
//@use zipfile_name nobody
//@use zipfile_is_dir nobody
//@use zipfile_is_file nobody
//@use zipfile_unix_mode nobody
//@use zipfile_skip_rest nobody
}
//@use read_zipfile_or_end_from_stream nobody
//@use central_header_to_zip_file_inner nobody
pub mod zip_archive {
    use super::*;
//@item src/read.rs | mod zip_archive | struct Shared
//@item src/read.rs | mod zip_archive | struct ZipArchive
}
pub use zip_archive::ZipArchive;
//@impl src/read.rs | impl<R: Read + io::Seek> ZipArchive<R>
impl<R: Read + io::Seek> ZipArchive<R> {
//@use za_len nobody
//@use za_by_index nobody
//@use za_extract
}

// ---- streaming reader
//@item src/read/stream.rs | struct ZipStreamFileMetadata
//@item src/read/stream.rs | struct ZipStreamReader
//@impl src/read/stream.rs | impl ZipStreamFileMetadata
impl ZipStreamFileMetadata {
//@use zsfm_enclosed_name
//@use zsfm_mangled_name
//@use zsfm_unix_mode
//@use zsfm_name
//@use zsfm_name_raw
//@use zsfm_comment
//@use zsfm_is_dir
//@use zsfm_is_file
}
// T11: the crate's visitor trait; members verbatim (checked against the source by name below)
//@impl src/read/stream.rs | impl<R: Read> ZipStreamReader<R>
pub trait ZipStreamVisitor {
    // ghost (T11): a visitor's own invariant, and -- for a visitor that keeps one (v_logs) -- the log of the
    // callbacks it has received (false: visit_file, true: visit_additional_metadata)
    spec fn v_inv(&self) -> bool;
    spec fn v_logs(&self) -> bool;
    spec fn v_log(&self) -> Seq<bool>;
    fn visit_file(&mut self, file: &mut ZipFile<'_>) -> (r: ZipResult<()>)
        requires old(self).v_inv(), zf_wf(old(file)),
        ensures final(self).v_inv(), final(self).v_logs() == old(self).v_logs(),
            final(self).v_logs() ==> final(self).v_log() == old(self).v_log().push(false),
            // a visitor reaches the entry only through its public methods, all of which keep it well formed (proved in U8); the
            // entry is still the streamed one it was handed
            zf_wf(final(file)), final(file).data == old(file).data;
    fn visit_additional_metadata(&mut self, metadata: &ZipStreamFileMetadata) -> (r: ZipResult<()>)
        requires old(self).v_inv(),
        ensures final(self).v_inv(), final(self).v_logs() == old(self).v_logs(),
            final(self).v_logs() ==> final(self).v_log() == old(self).v_log().push(true);
}
// C10: the callbacks a visit delivers are all files first, then at least one metadata record
pub open spec fn log_extends(before: Seq<bool>, after: Seq<bool>) -> bool {
    before.len() <= after.len() && forall|i: int| 0 <= i < before.len() ==> #[trigger] after[i] == before[i]
}
pub open spec fn files_only_from(s: Seq<bool>, k: int) -> bool { forall|i: int| k <= i < s.len() ==> !#[trigger] s[i] }
// the entries ended at an end record (APPNOTE 4.3.16 / 4.3.14 signatures), not at a central directory header
pub open spec fn ends_without_directory(d: Seq<u8>, p: int) -> bool { sig_at(d, p, 0x06054b50u32) || sig_at(d, p, 0x06064b50u32) }
pub open spec fn files_before_metas_from(s: Seq<bool>, k: int) -> bool {
    forall|i: int, j: int| k <= i <= j < s.len() && #[trigger] s[i] ==> #[trigger] s[j]
}
// T7x in both extractors: `io::copy(file, &mut outfile)` with an entry as the source.
// TRANSCRIPTION of std::io::copy (generic path `stack_buffer_copy`: read into an 8 KiB stack buffer until Ok(0), write_all every
// chunk, count the bytes; the retry on ErrorKind::Interrupted is omitted - the I/O model has no such kind).  The body is VERIFIED
// against ZipFile::read's proved contract (unit U8), so "the entry is still well formed and still the same entry afterwards" is
// derived.  Termination is not claimed (a decoder may produce output without bound): partial correctness only.
#[verifier::exec_allows_no_decreases_clause]
pub fn shim_copy_to_file<'a>(r: &mut ZipFile<'a>, w: &mut fs::File) -> (res: io::Result<u64>)
    requires zf_wf(old(r)),
    ensures zf_wf(final(r)), final(r).data == old(r).data,
{
    let mut buffer = [0u8; 8192];
    let mut len: u64 = 0;
    loop
        invariant buffer@.len() == 8192, zf_wf(r), r.data == old(r).data,
    {
        let n = match r.read(&mut buffer) {
            Ok(n) => n,
            Err(e) => return Err(e),
        };
        if n == 0 {
            return Ok(len);
        }
        len = len.wrapping_add(n as u64);   // std: `len += n as u64` (2^64 bytes are out of reach)
        match w.write_all(&buffer[0..n]) {
            Ok(()) => {}
            Err(e) => return Err(e),
        }
    }
}
// T15: `struct Extractor` and its visitor impl are items nested in the body of ZipStreamReader::extract; Rust gives
// nested items no access to the enclosing function's locals, so they are verified at module level (same text).
//@item src/read/stream.rs | impl<R: Read> ZipStreamReader<R> | fn extract | struct Extractor
//@impl src/read/stream.rs | impl<R: Read> ZipStreamReader<R>
impl ZipStreamVisitor for Extractor<'_> {
    open spec fn v_inv(&self) -> bool { pathx::pview(self.0) == pathx::extraction_root() }
    open spec fn v_logs(&self) -> bool { false }
    open spec fn v_log(&self) -> Seq<bool> { Seq::empty() }
//@use extractor_visit_file
//@use extractor_visit_additional_metadata
}
impl<R: Read> ZipStreamReader<R> {
//@use zsr_parse_central_directory
//@use zsr_visit
//@use zsr_extract
}
} // verus!
fn main() {}
