// U4: src/spec.rs -- end-of-central-directory records (C01, C02, C03, C05, C08, C11)
use vstd::prelude::*;
verus! {
//@include shims/io.rs
//@include shims/prelude.rs
//@include spec/seqlemmas.rs

//@item src/spec.rs | const CENTRAL_DIRECTORY_END_SIGNATURE
//@item src/spec.rs | const ZIP64_CENTRAL_DIRECTORY_END_SIGNATURE
//@item src/spec.rs | const ZIP64_CENTRAL_DIRECTORY_END_LOCATOR_SIGNATURE
//@item src/spec.rs | struct CentralDirectoryEnd
//@item src/spec.rs | struct Zip64CentralDirectoryEndLocator
//@item src/spec.rs | struct Zip64CentralDirectoryEnd

//@include spec/appnote_end.rs

// the crate's signature constants are the APPNOTE ones
proof fn lemma_signatures()
    ensures CENTRAL_DIRECTORY_END_SIGNATURE == SIG_EOCD, ZIP64_CENTRAL_DIRECTORY_END_SIGNATURE == SIG_Z64_EOCD,
        ZIP64_CENTRAL_DIRECTORY_END_LOCATOR_SIGNATURE == SIG_Z64_LOC
{ }

//@impl src/spec.rs | impl CentralDirectoryEnd
impl CentralDirectoryEnd {
//@use cde_record_too_small
//@use cde_parse
//@use cde_find_and_parse
//@use cde_write
}
//@impl src/spec.rs | impl Zip64CentralDirectoryEndLocator
impl Zip64CentralDirectoryEndLocator {
//@use z64loc_parse
//@use z64loc_write
}
//@impl src/spec.rs | impl Zip64CentralDirectoryEnd
impl Zip64CentralDirectoryEnd {
//@use z64_find_and_parse
//@use z64_write
}
} // verus!
fn main() {}
