// U4: src/spec.rs -- end-of-central-directory records (C01, C02, C03, C05, C08, C11)
use vstd::prelude::*;
verus! {
//@include shims/io.rs
//@include shims/prelude.rs
//@include spec/seqlemmas.rs

//@item src/spec.rs | const CENTRAL_DIRECTORY_END_SIGNATURE
//@item src/spec.rs | const ZIP64_CENTRAL_DIRECTORY_END_SIGNATURE
//@item src/spec.rs | const ZIP64_CENTRAL_DIRECTORY_END_LOCATOR_SIGNATURE
//@item src/spec.rs | struct CentralDirectoryEnd
//@item src/spec.rs | struct Zip64CentralDirectoryEndLocator
//@item src/spec.rs | struct Zip64CentralDirectoryEnd

//@include spec/appnote_end.rs

// the crate's signature constants are the APPNOTE ones
proof fn lemma_signatures()
    ensures CENTRAL_DIRECTORY_END_SIGNATURE == SIG_EOCD, ZIP64_CENTRAL_DIRECTORY_END_SIGNATURE == SIG_Z64_EOCD,
        ZIP64_CENTRAL_DIRECTORY_END_LOCATOR_SIGNATURE == SIG_Z64_LOC
{ }

//@impl src/spec.rs | impl CentralDirectoryEnd
impl CentralDirectoryEnd {
//@use cde_record_too_small
//@use cde_parse
//@use cde_find_and_parse
//@use cde_write
}
//@impl src/spec.rs | impl Zip64CentralDirectoryEndLocator
impl Zip64CentralDirectoryEndLocator {
//@use z64loc_parse
//@use z64loc_write
}
//@impl src/spec.rs | impl Zip64CentralDirectoryEnd
impl Zip64CentralDirectoryEnd {
//@use z64_find_and_parse
//@use z64_write
}

// ---- KNOWN FINDINGS F38 / F39 (known_findings.json): the two record searches are proved to return "the last / the first position
// that carries the signature" (cde_find_and_parse, z64_find_and_parse).  What C01/C03 need of them is more: that this position is the
// record the producer wrote.  The two statements below say so; they are FALSE for the searches as they are (the fixed part of the end
// record, and data prepended to the archive, can carry the four signature bytes) and therefore FAIL.
// @props: C01 C03 -- the end record that closes the file is the one the backward search returns (FAILS: F38)
pub proof fn lemma_the_end_record_that_closes_the_file_is_the_one_found(d: Seq<u8>, p: int)
    requires
        eocd_at(d, p), p + 22 + eocd_comment_len(d, p) == d.len(),                       // a record that ends exactly at end-of-file
        forall|q: int| p + 22 <= q && q + 4 <= d.len() ==> !sig_at(d, q, SIG_EOCD),     // whose comment does not embed the signature (C01's quantifier)
    ensures
        forall|q: int| p < q && q + 22 <= d.len() ==> !sig_at(d, q, SIG_EOCD),          // = the position find_and_parse returns is p
{ }
// @props: C03 C08 -- behind prepended data the ZIP64 end record the locator names is the one the forward search returns (FAILS: F39)
pub proof fn lemma_the_zip64_record_the_locator_names_is_the_one_found(d: Seq<u8>, nominal: int, prepended: int)
    requires
        0 <= nominal, 0 <= prepended, z64eocd_at(d, nominal + prepended),              // the record, shifted by the length of the prepended data
        forall|q: int| prepended <= q < nominal + prepended ==> !sig_at(d, q, SIG_Z64_EOCD),   // the archive itself does not embed the signature in front of it
    ensures
        forall|q: int| nominal <= q < nominal + prepended ==> !sig_at(d, q, SIG_Z64_EOCD),      // = the first match from `nominal` on is the record
{ }
} // verus!
fn main() {}
