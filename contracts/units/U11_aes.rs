// U11: src/aes.rs, src/aes_ctr.rs, AesMode of src/types.rs -- WinZip-AES reader (C16, C09, C05)
#![feature(sized_hierarchy)]   // only to spell the bounds of core::convert::AsRef in its external trait specification
#![feature(allocator_api)]     // only to spell the signature of <Vec<T, A> as PartialEq<&[U]>>::ne in its assume_specification
use vstd::prelude::*;
verus! {
//@include shims/io.rs
//@include shims/aescrypto.rs

//@item src/types.rs | enum AesMode
pub open spec fn aes_key_len(m: AesMode) -> int {
    match m { AesMode::Aes128 => 16, AesMode::Aes192 => 24, AesMode::Aes256 => 32 }
}
//@impl src/types.rs | impl AesMode
impl AesMode {
//@use aesmode_key_length
//@use aesmode_salt_length
}

pub mod aes_ctr {
use vstd::prelude::*;
use super::*;
use super::aes::cipher::{BlockEncrypt, KeyInit, AesKeyed, GenericArray};
//@item src/aes_ctr.rs | const AES_BLOCK_SIZE
//@item src/aes_ctr.rs | struct Aes128
//@item src/aes_ctr.rs | struct Aes192
//@item src/aes_ctr.rs | struct Aes256
//@item src/aes_ctr.rs | trait AesKind
//@item src/aes_ctr.rs | impl AesKind for Aes128
//@item src/aes_ctr.rs | impl AesKind for Aes192
//@item src/aes_ctr.rs | impl AesKind for Aes256
//@item src/aes_ctr.rs | struct AesCtrZipKeyStream

// T11: the crate's own trait `AesCipher` (src/aes_ctr.rs: `pub trait AesCipher { fn crypt_in_place(&mut self,
// target: &mut [u8]); }`) with ghost members: the key, the number of key-stream bytes consumed so far, a
// representation invariant, and the contract every implementation has to meet.  The executable member is verbatim;
// a drift of its signature in /repo makes the verbatim impl below fail to type-check.
pub trait AesCipher {
    spec fn g_key(&self) -> Seq<u8>;
    spec fn g_k(&self) -> int;
    spec fn g_wf(&self) -> bool;
    fn crypt_in_place(&mut self, target: &mut [u8])
        requires
            old(self).g_wf(),
            old(self).g_k() + old(target)@.len() <= ks_limit(),
        ensures
            final(self).g_wf(),
            final(self).g_key() == old(self).g_key(),
            final(self).g_k() == old(self).g_k() + old(target)@.len(),
            ctr_xor(old(self).g_key(), old(self).g_k(), old(target)@, final(target)@);
}

//@impl src/aes_ctr.rs | impl<C> AesCtrZipKeyStream<C> where C: AesKind, C::Cipher: KeyInit,
impl<C> AesCtrZipKeyStream<C>
where
    C: AesKind,
    C::Cipher: KeyInit,
{
//@use aesctr_new
}

//@impl src/aes_ctr.rs | impl<C> AesCipher for AesCtrZipKeyStream<C> where C: AesKind, C::Cipher: BlockEncrypt,
impl<C> AesCipher for AesCtrZipKeyStream<C>
where
    C: AesKind,
    C::Cipher: BlockEncrypt,
{
    open spec fn g_key(&self) -> Seq<u8> { self.cipher.g_key() }
    // DESIGN C09: ks_pos == 16*(counter-1) - (16-pos)
    open spec fn g_k(&self) -> int { 16 * (self.counter - 1) - (16 - self.pos) }
    open spec fn g_wf(&self) -> bool {
        self.pos <= 16 && self.counter >= 1
        && (self.pos < 16 ==> self.counter >= 2 && self.buffer@ == aes_block(self.cipher.g_key(), (self.counter - 1) as u128))
    }
//@use aesctr_crypt_in_place
}

// `xor` is NOT verified here (its body uses iter_mut().zip(), which Verus does not take): assumed contract,
// covered by Kani on the real code.
//@use aesctr_xor nobody
} // mod aes_ctr

// C09 for the key stream, as a proved consequence of the contract of `crypt_in_place`: processing a ++ b in two calls
// (k advances by a.len() in between) gives the same bytes as processing it in one call.  By induction, any chunking.
// @props: C09 C16 -- the CTR key stream applied in two chunks equals one application
pub proof fn lemma_ctr_chunking(key: Seq<u8>, k: int, a: Seq<u8>, a2: Seq<u8>, b: Seq<u8>, b2: Seq<u8>)
    requires ctr_xor(key, k, a, a2), ctr_xor(key, k + a.len(), b, b2)
    ensures ctr_xor(key, k, a + b, a2 + b2)
{
    assert forall|i: int| 0 <= i < (a + b).len() implies #[trigger] (a2 + b2)[i] == (a + b)[i] ^ ks_byte(key, k + i) by {
        if i >= a.len() {
            assert((a2 + b2)[i] == b2[i - a.len()]);
            assert(b2[i - a.len()] == b[i - a.len()] ^ ks_byte(key, k + a.len() + (i - a.len())));
        } else {
            assert((a2 + b2)[i] == a2[i]);
        }
    }
}
// the same for the whole decrypting reader: two successive successful reads compose into one step over the concatenated
// ciphertext (MAC input, key stream and plaintext all line up), so the result does not depend on how the reads were split
// @props: C09 C16 -- two AES read steps compose into one
pub proof fn lemma_read_steps_compose(key: Seq<u8>, k: int, h0: Seq<u8>, ct1: Seq<u8>, p1: Seq<u8>, ct2: Seq<u8>, p2: Seq<u8>)
    requires ctr_xor(key, k, ct1, p1), ctr_xor(key, k + ct1.len(), ct2, p2)
    ensures ctr_xor(key, k, ct1 + ct2, p1 + p2), (h0 + ct1) + ct2 == h0 + (ct1 + ct2)
{
    lemma_ctr_chunking(key, k, ct1, p1, ct2, p2);
    assert((h0 + ct1) + ct2 =~= h0 + (ct1 + ct2));
}

// ---------------------------------------------------------------------------------------------------- src/aes.rs
//@item src/aes.rs | const PWD_VERIFY_LENGTH
//@item src/aes.rs | const AUTH_CODE_LENGTH
//@item src/aes.rs | const ITERATION_COUNT
//@item src/aes.rs | struct AesReader
//@item src/aes.rs | struct AesReaderValid

// PBKDF2 output for a password and salt: 2*key_len + 2 bytes, cut as [0,k) cipher key | [k,2k) HMAC key | [2k,2k+2) verifier
pub open spec fn aes_derived(password: Seq<u8>, salt: Seq<u8>, m: AesMode) -> Seq<u8> {
    pbkdf2_hmac_sha1(password, salt, 1000, 2 * aes_key_len(m) + 2)
}
// `salt` is what the header read delivered: aes_key_len/2 bytes, for a device the bytes at its position
pub open spec fn salt_read_from<R: Read>(salt: Seq<u8>, rd: &R, m: AesMode) -> bool {
    salt.len() == aes_key_len(m) / 2 && (rd.g_dev() ==> salt == at(rd.g_bytes(), rd.g_pos(), aes_key_len(m) / 2))
}
// the key material a validated reader carries was cut out of PBKDF2(password, salt) this way
pub open spec fn keyed_from(cipher_key: Seq<u8>, hmac_key: Seq<u8>, password: Seq<u8>, salt: Seq<u8>, m: AesMode) -> bool {
    let k = aes_key_len(m);
    salt.len() == k / 2
    && cipher_key == aes_derived(password, salt, m).subrange(0, k)
    && hmac_key == aes_derived(password, salt, m).subrange(k, 2 * k)
}
pub open spec fn is_ciphertext_of_len(ct: Seq<u8>, n: int) -> bool { ct.len() == n }
// one successful `read` (with data remaining) that returned n bytes whose ciphertext was ct: MAC input, decryption, MAC check
pub open spec fn aes_read_step<R: Read>(o: &AesReaderValid<R>, f: &AesReaderValid<R>, fb: Seq<u8>, n: int, ct: Seq<u8>) -> bool {
    &&& ct.len() == n
    &&& (o.reader.g_dev() && n > 0 ==> ct == at(o.reader.g_bytes(), o.reader.g_pos(), n))
    &&& ctr_xor(o.cipher.g_key(), o.cipher.g_k(), ct, fb.subrange(0, n))
    &&& f.hmac.key() == o.hmac.key()
    &&& (f.data_remaining > 0 ==> f.hmac@ == o.hmac@ + ct)
    &&& (f.data_remaining == 0 && o.reader.g_dev() ==> inb(o.reader.g_bytes(), o.reader.g_pos() + n, 10)
            && at(o.reader.g_bytes(), o.reader.g_pos() + n, 10) == hmac_sha1(o.hmac.key(), o.hmac@ + ct).subrange(0, 10))
}

// T7x in cipher_from_mode: `Box::new(x) as Box<dyn aes_ctr::AesCipher>` (Verus: "does not support this cast").
// ASSUMED: the unsizing coercion hands out the very object that was boxed (its ghost key, key-stream position and invariant)
#[verifier::external_body]
pub fn shim_box_cipher<T: aes_ctr::AesCipher + 'static>(x: T) -> (r: Box<dyn aes_ctr::AesCipher>)
    ensures r.g_key() == x.g_key(), r.g_k() == x.g_k(), r.g_wf() == x.g_wf()
{ Box::new(x) }
//@use aes_cipher_from_mode

//@impl src/aes.rs | impl<R: Read> AesReader<R>
impl<R: Read> AesReader<R> {
//@use aesreader_new
//@use aesreader_validate
}

impl<R: Read> AesReaderValid<R> {
    // representation invariant: established by `validate`, needed and re-established by `read`
    pub open spec fn wf(&self) -> bool {
        (self.finalized ==> self.data_remaining == 0) && (self.authenticated ==> self.finalized)
        && self.cipher.g_wf() && self.cipher.g_k() >= 0
        && self.cipher.g_k() + self.data_remaining <= ks_limit()
    }
}
// ghost: an adapter is not a device.  `g_ready` ("calling read on this object cannot panic") is the hook through which
// the I/O model lets a trait-impl `read` have a precondition: here it is the representation invariant (without it
// `assert!(!self.finalized)` could trip) plus readiness of the inner reader.
impl<R: Read> Dev for AesReaderValid<R> {
    open spec fn g_dev(&self) -> bool { false }
    open spec fn g_bytes(&self) -> Seq<u8> { Seq::empty() }
    open spec fn g_pos(&self) -> int { 0 }
    open spec fn g_fault(&self) -> bool { false }
    open spec fn g_ready(&self) -> bool { self.wf() && self.reader.g_ready() }
}

//@impl src/aes.rs | impl<R: Read> Read for AesReaderValid<R>
impl<R: Read> Read for AesReaderValid<R> {
//@use aesreadervalid_read
}

//@impl src/aes.rs | impl<R: Read> AesReaderValid<R>
impl<R: Read> AesReaderValid<R> {
//@use aesreadervalid_check_auth_code optional
//@use aesreadervalid_into_inner
}

} // verus!
fn main() {}
