// U14: src/cp437.rs -- `Vec<u8>::from_cp437` is the per-byte map through the CP437 table, for byte strings of ANY length (C19).
// The table itself (`to_char`, a 256-arm match ending in char::from_u32(..).unwrap()) is decided by Kani (group cp437,
// harness to_char_table: all 256 bytes against CPython's codec); here it is contract-only and `cp437_char` is that table.
use vstd::prelude::*;
verus! {
//@include shims/strings.rs

// ASSUMED (std iterator adapters on a byte vector, T7x/T12; same status as Components::filter/fold in unit U3): specified
// through the closure's / function's own contract (call_ensures), so the real closure body and `to_char` are what is verified
// `v.iter().all(p)`: true iff the predicate answered true for every element (std: short-circuits at the first false)
#[verifier::external_body]
pub fn shim_iter_all<P: Fn(&u8) -> bool>(v: &Vec<u8>, pred: P) -> (r: bool)
    requires forall|i: int| 0 <= i < v@.len() ==> pred.requires((&#[trigger] v@[i],)),
    ensures
        r ==> forall|i: int| 0 <= i < v@.len() ==> pred.ensures((&#[trigger] v@[i],), true),
        !r ==> exists|i: int| 0 <= i < v@.len() && pred.ensures((&#[trigger] v@[i],), false),
{ v.iter().all(pred) }
// `v.into_iter().map(f).collect::<String>()`: the string whose i-th character is what `f` returned for the i-th byte
#[verifier::external_body]
pub fn shim_into_iter_map_collect_string<F: Fn(u8) -> char>(v: Vec<u8>, f: F) -> (r: String)
    requires forall|i: int| 0 <= i < v@.len() ==> f.requires((#[trigger] v@[i],)),
    ensures r@.len() == v@.len(), forall|i: int| 0 <= i < v@.len() ==> f.ensures((#[trigger] v@[i],), r@[i]),
{ v.into_iter().map(f).collect() }

//@item src/cp437.rs | trait FromCp437
//@use cp437_to_char nobody

// an all-ASCII byte string is the UTF-8 encoding of exactly one string: its bytes as characters
// @props: C19 -- the ASCII fast path of from_cp437 (String::from_utf8) yields the same string as the table
pub proof fn lemma_ascii_bytes_are_utf8_of_their_chars(b: Seq<u8>, s: Seq<char>)
    requires forall|i: int| 0 <= i < b.len() ==> b[i] < 0x80, utf8(s) == b
    ensures s == cp437(b)
{
    let t = cp437(b);
    assert forall|i: int| 0 <= i < t.len() implies (t[i] as u32) < 128 by { axiom_cp437_char_ascii(b[i]); }
    axiom_utf8_ascii(t);
    assert forall|i: int| 0 <= i < b.len() implies utf8(t)[i] == b[i] by { axiom_cp437_char_ascii(b[i]); }
    assert(utf8(t) =~= b);
    axiom_utf8_lossy_inverse(t);
    axiom_utf8_lossy_inverse(s);
}

//@impl src/cp437.rs | impl FromCp437 for Vec<u8>
impl FromCp437 for Vec<u8> {
    type Target = String;
//@use vec_from_cp437
}

} // verus!
fn main() {}
