// ---- C06: what "cannot escape" means, over the component walk
pub open spec fn step(d: int, c: path::Component<'static>) -> int {
    match c { path::Component::ParentDir => d - 1, path::Component::Normal(_) => d + 1, _ => d }
}
pub open spec fn depth_after(cs: Seq<path::Component<'static>>, k: int) -> int
    decreases k
{ if k <= 0 { 0 } else { step(depth_after(cs, k - 1), cs[k - 1]) } }

// relative (no prefix, no root) and never climbs above its starting directory
pub open spec fn safe(cs: Seq<path::Component<'static>>) -> bool {
    &&& forall|i: int| 0 <= i < cs.len() ==> !(#[trigger] cs[i] is Prefix) && !(cs[i] is RootDir)
    &&& forall|k: int| 0 <= k <= cs.len() ==> #[trigger] depth_after(cs, k) >= 0
}

// lexical resolution of `base` joined with the first k components of cs:
// a stack of directory names; `..` pops (never below empty), `.` is skipped
pub open spec fn resolve(base: Seq<int>, cs: Seq<path::Component<'static>>, k: int) -> Seq<int>
    decreases k
{
    if k <= 0 { base } else {
        let s = resolve(base, cs, k - 1);
        match cs[k - 1] {
            path::Component::ParentDir => if s.len() > 0 { s.drop_last() } else { s },
            path::Component::Normal(_) => s.push(k),     // some name; its identity is irrelevant
            _ => s,
        }
    }
}
// the containment lemma: a safe component list joined onto ANY base stays inside it at every step
// @props: C06 C07 -- a safe component list joined onto any base keeps the base as a prefix at every step
pub proof fn lemma_safe_stays_inside(base: Seq<int>, cs: Seq<path::Component<'static>>, k: int)
    requires safe(cs), 0 <= k <= cs.len()
    ensures
        resolve(base, cs, k).len() == base.len() + depth_after(cs, k),
        resolve(base, cs, k).subrange(0, base.len() as int) == base,
    decreases k
{
    if k > 0 {
        lemma_safe_stays_inside(base, cs, k - 1);
        let s = resolve(base, cs, k - 1);
        assert(depth_after(cs, k - 1) >= 0);
        assert(depth_after(cs, k) >= 0);
        match cs[k - 1] {
            path::Component::ParentDir => {
                assert(s.len() > base.len());
                assert(s.drop_last().subrange(0, base.len() as int) =~= s.subrange(0, base.len() as int));
            }
            path::Component::Normal(_) => {
                assert(s.push(k).subrange(0, base.len() as int) =~= s.subrange(0, base.len() as int));
            }
            _ => {}
        }
    } else {
        assert(base.subrange(0, base.len() as int) =~= base);
    }
}

// ---- C06, mangled_name: the part of the name before the first NUL, with `\\` read as `/` (host: unix), ordinary components only
pub open spec fn before_nul(s: Seq<char>) -> Seq<char> {
    if s.contains('\0') { s.subrange(0, choose|k: int| first_at(s, '\0', k)) } else { s }
}
pub open spec fn sep_norm(s: Seq<char>) -> Seq<char> { char_replaced(s, '\\', '/') }
pub open spec fn normal_only(cs: Seq<path::Component<'static>>) -> Seq<path::Component<'static>>
    decreases cs.len()
{
    if cs.len() == 0 { Seq::empty() } else {
        let r = normal_only(cs.drop_last());
        if cs.last() is Normal { r.push(cs.last()) } else { r }
    }
}
pub open spec fn sanitized_components(name: Seq<char>) -> Seq<path::Component<'static>> {
    normal_only(path::spec_components(path::spec_path_of(sep_norm(before_nul(name)))))
}
// a list of ordinary components is relative and never climbs: it is `safe`, so the containment lemma applies to it
pub proof fn lemma_normal_only_is_ordinary(cs: Seq<path::Component<'static>>)
    ensures forall|i: int| 0 <= i < normal_only(cs).len() ==> #[trigger] normal_only(cs)[i] is Normal
    decreases cs.len()
{
    if cs.len() > 0 { lemma_normal_only_is_ordinary(cs.drop_last()); }
}
pub proof fn lemma_depth_of_ordinary(cs: Seq<path::Component<'static>>, k: int)
    requires forall|i: int| 0 <= i < cs.len() ==> #[trigger] cs[i] is Normal, 0 <= k <= cs.len()
    ensures depth_after(cs, k) == k
    decreases k
{
    if k > 0 { lemma_depth_of_ordinary(cs, k - 1); }
}
// @props: C06 -- the sanitised component list is ordinary components only, hence safe
pub proof fn lemma_sanitized_is_safe(name: Seq<char>)
    ensures safe(sanitized_components(name)),
            forall|i: int| 0 <= i < sanitized_components(name).len() ==> #[trigger] sanitized_components(name)[i] is Normal,
{
    let cs = sanitized_components(name);
    lemma_normal_only_is_ordinary(path::spec_components(path::spec_path_of(sep_norm(before_nul(name)))));
    assert forall|k: int| 0 <= k <= cs.len() implies #[trigger] depth_after(cs, k) >= 0 by { lemma_depth_of_ordinary(cs, k); }
}
// the fold of file_name_sanitized collects exactly the ordinary components, in order (induction over the fold relation)
proof fn lemma_fold_prefix<'a, P: Fn(&path::Component<'a>) -> bool, F: Fn(path::PathBuf, path::Component<'a>) -> path::PathBuf>(
    src: Seq<path::Component<'static>>, pred: P, f: F, init: path::PathBuf, accs: Seq<path::PathBuf>, i: int)
    requires
        path::fold_rel(src, pred, f, init, accs), 0 <= i <= src.len(),
        forall|c: path::Component<'a>, b: bool| pred.ensures((&c,), b) ==> b == (c is Normal),
        forall|p: path::PathBuf, c: path::Component<'a>, q: path::PathBuf| f.ensures((p, c), q) ==> q.comps() == p.comps().push(c),
    ensures accs[i].comps() == init.comps() + normal_only(src.subrange(0, i)),
    decreases i
{
    if i == 0 {
        assert(src.subrange(0, 0) =~= Seq::empty());
        assert(init.comps() + Seq::<path::Component<'static>>::empty() =~= init.comps());
    } else {
        lemma_fold_prefix(src, pred, f, init, accs, i - 1);
        let pre = src.subrange(0, i);
        assert(pre.drop_last() =~= src.subrange(0, i - 1));
        assert(pre.last() == src[i - 1]);
        assert(accs[(i - 1) + 1] == accs[i]);
        if src[i - 1] is Normal {
            assert(init.comps() + normal_only(src.subrange(0, i - 1)).push(src[i - 1]) =~= (init.comps() + normal_only(src.subrange(0, i - 1))).push(src[i - 1]));
        }
    }
}
pub broadcast proof fn lemma_fold_collects_normal<'a, P: Fn(&path::Component<'a>) -> bool, F: Fn(path::PathBuf, path::Component<'a>) -> path::PathBuf>(
    src: Seq<path::Component<'static>>, pred: P, f: F, init: path::PathBuf, accs: Seq<path::PathBuf>)
    requires
        #[trigger] path::fold_rel(src, pred, f, init, accs),
        forall|c: path::Component<'a>, b: bool| pred.ensures((&c,), b) ==> b == (c is Normal),
        forall|p: path::PathBuf, c: path::Component<'a>, q: path::PathBuf| f.ensures((p, c), q) ==> q.comps() == p.comps().push(c),
    ensures accs.last().comps() == init.comps() + normal_only(src),
{
    lemma_fold_prefix(src, pred, f, init, accs, src.len() as int);
    assert(src.subrange(0, src.len() as int) =~= src);
}
