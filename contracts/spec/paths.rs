// ---- C06: what "cannot escape" means, over the component walk
pub open spec fn step(d: int, c: path::Component<'static>) -> int {
    match c { path::Component::ParentDir => d - 1, path::Component::Normal(_) => d + 1, _ => d }
}
pub open spec fn depth_after(cs: Seq<path::Component<'static>>, k: int) -> int
    decreases k
{ if k <= 0 { 0 } else { step(depth_after(cs, k - 1), cs[k - 1]) } }

// relative (no prefix, no root) and never climbs above its starting directory
pub open spec fn safe(cs: Seq<path::Component<'static>>) -> bool {
    &&& forall|i: int| 0 <= i < cs.len() ==> !(#[trigger] cs[i] is Prefix) && !(cs[i] is RootDir)
    &&& forall|k: int| 0 <= k <= cs.len() ==> #[trigger] depth_after(cs, k) >= 0
}

// lexical resolution of `base` joined with the first k components of cs:
// a stack of directory names; `..` pops (never below empty), `.` is skipped
pub open spec fn resolve(base: Seq<int>, cs: Seq<path::Component<'static>>, k: int) -> Seq<int>
    decreases k
{
    if k <= 0 { base } else {
        let s = resolve(base, cs, k - 1);
        match cs[k - 1] {
            path::Component::ParentDir => if s.len() > 0 { s.drop_last() } else { s },
            path::Component::Normal(_) => s.push(k),     // some name; its identity is irrelevant
            _ => s,
        }
    }
}
// the containment lemma: a safe component list joined onto ANY base stays inside it at every step
pub proof fn lemma_safe_stays_inside(base: Seq<int>, cs: Seq<path::Component<'static>>, k: int)
    requires safe(cs), 0 <= k <= cs.len()
    ensures
        resolve(base, cs, k).len() == base.len() + depth_after(cs, k),
        resolve(base, cs, k).subrange(0, base.len() as int) == base,
    decreases k
{
    if k > 0 {
        lemma_safe_stays_inside(base, cs, k - 1);
        let s = resolve(base, cs, k - 1);
        assert(depth_after(cs, k - 1) >= 0);
        assert(depth_after(cs, k) >= 0);
        match cs[k - 1] {
            path::Component::ParentDir => {
                assert(s.len() > base.len());
                assert(s.drop_last().subrange(0, base.len() as int) =~= s.subrange(0, base.len() as int));
            }
            path::Component::Normal(_) => {
                assert(s.push(k).subrange(0, base.len() as int) =~= s.subrange(0, base.len() as int));
            }
            _ => {}
        }
    } else {
        assert(base.subrange(0, base.len() as int) =~= base);
    }
}
