// C03/C01/C14: where the bounded view of an opened entry sits: right behind the local header the central record points at
// (name and extra lengths taken from the LOCAL header), bounded by the compressed size of the CENTRAL record, over the
// archive's own bytes, with no device fault swallowed on the way
pub open spec fn entry_take_ok<'a>(t: Take<DynRead<'a>>, d: Seq<u8>, flt: bool, e: ZipFileData) -> bool {
    let p = e.header_start as int;
    &&& sig_at(d, p, SIG_LFH) && inb(d, p, 30)
    &&& t.limit == e.compressed_size
    &&& t.inner.g_dev() && t.inner.g_bytes() == d && t.inner.g_fault() == flt
    &&& t.inner.g_pos() == p + 30 + lfh_name_len(d, p) + lfh_extra_len(d, p)
}
