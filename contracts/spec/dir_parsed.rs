// ---- the central directory as the READER walks it (C03, C13); shared by U8b, U7b and U13.  Needs appnote_headers.rs, parsed.rs
// position of the i-th central directory header when the records are laid out back to back from `start`
pub open spec fn cd_pos(d: Seq<u8>, start: int, i: int) -> int
    decreases i
{ if i <= 0 { start } else { cd_pos(d, start, i - 1) + cdh_len(d, cd_pos(d, start, i - 1)) } }
// the directory walk of C03: n records, each parsed per APPNOTE, in order
pub open spec fn dir_parsed(d: Seq<u8>, start: int, files: Seq<ZipFileData>, aoff: u64) -> bool {
    forall|j: int| 0 <= j < files.len() ==> cdh_at(d, #[trigger] cd_pos(d, start, j))
        && parsed_matches(files[j], dec_cdh(d, cd_pos(d, start, j)), cd_pos(d, start, j) as u64, aoff)
}
// the directory as new_append re-hydrates it: every record parsed per APPNOTE, in order; the extra field is kept without
// its ZIP64 records (their values are in the entry and the record is regenerated when the directory is written again)
pub open spec fn dir_parsed_append(d: Seq<u8>, start: int, files: Seq<ZipFileData>, aoff: u64) -> bool {
    forall|j: int| 0 <= j < files.len() ==> cdh_at(d, #[trigger] cd_pos(d, start, j))
        && parsed_matches_but_extra(files[j], dec_cdh(d, cd_pos(d, start, j)), cd_pos(d, start, j) as u64, aoff)
        && files[j].extra_field@ == strip_z64(dec_cdh(d, cd_pos(d, start, j)).extra_rest, 0)
}
