// ---- what the header records of an entry must contain (property level: C01, C02, C08, C15, C19)
pub open spec fn method_code(m: CompressionMethod) -> u16 {
    match m {
        CompressionMethod::Stored => 0, CompressionMethod::Deflated => 8, CompressionMethod::Bzip2 => 12,
        CompressionMethod::Zstd => 93, CompressionMethod::Aes => 99, CompressionMethod::Unsupported(v) => v,
    }
}
pub open spec fn system_code(s: System) -> u16 { match s { System::Dos => 0, System::Unix => 3, System::Unknown => 4 } }
pub open spec fn zip64_ext(f: ZipFileData) -> bool { f.uncompressed_size > U32MAX || f.compressed_size > U32MAX || f.header_start > U32MAX }
// version needed: at least what the entry uses (latitude: any larger value is fine)
pub open spec fn needed_ok(f: ZipFileData, nd: u16) -> bool {
    nd >= 20 && (zip64_ext(f) ==> nd >= 45) && (f.compression_method is Bzip2 ==> nd >= 46)
}
// general purpose flags: bit 11 (language encoding, UTF-8) exactly for non-ASCII names, bit 0 for encrypted entries
pub open spec fn flags_of(f: ZipFileData) -> u16 {
    (if !f.file_name.is_ascii() { 1u16 << 11 } else { 0u16 }) | (if f.encrypted { 1u16 << 0 } else { 0u16 })
}
// ... which is: bit 11 set exactly for non-ASCII names, bit 0 exactly for encrypted entries, bit 3 (data descriptor) never
pub proof fn lemma_flags_meaning(f: ZipFileData)
    ensures (flags_of(f) & 0x0800 != 0) == !f.file_name.is_ascii(), (flags_of(f) & 1 == 1) == f.encrypted, flags_of(f) & 8 == 0,
        flags_of(f) & !0x0801u16 == 0
{
    assert(((1u16 << 11) | (1u16 << 0)) & 0x0800 != 0 && ((1u16 << 11) | (1u16 << 0)) & 1 == 1 && ((1u16 << 11) | (1u16 << 0)) & 8 == 0 && ((1u16 << 11) | (1u16 << 0)) & !0x0801u16 == 0) by(bit_vector);
    assert(((1u16 << 11) | 0u16) & 0x0800 != 0 && ((1u16 << 11) | 0u16) & 1 == 0 && ((1u16 << 11) | 0u16) & 8 == 0 && ((1u16 << 11) | 0u16) & !0x0801u16 == 0) by(bit_vector);
    assert((0u16 | (1u16 << 0)) & 0x0800 == 0 && (0u16 | (1u16 << 0)) & 1 == 1 && (0u16 | (1u16 << 0)) & 8 == 0 && (0u16 | (1u16 << 0)) & !0x0801u16 == 0) by(bit_vector);
    assert((0u16 | 0u16) & 0x0800 == 0 && (0u16 | 0u16) & 1 == 0 && (0u16 | 0u16) & 8 == 0 && (0u16 | 0u16) & !0x0801u16 == 0) by(bit_vector);
}
// the central header also says whether the entry (one taken over by new_append: this writer emits none of its own) has a data
// descriptor behind its data - bit 3, as in the entry's untouched local header (F35: the Info-ZIP ZipCrypto check byte hangs on it)
pub open spec fn cflags_of(f: ZipFileData) -> u16 { flags_of(f) | (if f.using_data_descriptor { 1u16 << 3 } else { 0u16 }) }
pub proof fn lemma_cflags_meaning(f: ZipFileData)
    ensures (cflags_of(f) & 0x0800 != 0) == !f.file_name.is_ascii(), (cflags_of(f) & 1 == 1) == f.encrypted,
        (cflags_of(f) & (1u16 << 3) != 0) == f.using_data_descriptor,
        (cflags_of(f) & (1u16 << 11) != 0) == (flags_of(f) & (1u16 << 11) != 0)
{
    lemma_flags_meaning(f);
    let fl = flags_of(f);
    assert(fl & !0x0801u16 == 0 ==> ((fl | (1u16 << 3)) & 0x0800 != 0) == (fl & 0x0800 != 0) && ((fl | (1u16 << 3)) & 1) == (fl & 1)
        && (fl | (1u16 << 3)) & (1u16 << 3) != 0 && (fl | 0u16) == fl && fl & (1u16 << 3) == 0
        && (fl & (1u16 << 11) != 0) == (fl & 0x0800 != 0) && ((fl | (1u16 << 3)) & (1u16 << 11) != 0) == (fl & 0x0800 != 0)) by(bit_vector);
}
pub open spec fn dt_time(t: DateTime) -> u16 { dos_time(t.hour, t.minute, t.second) }
pub open spec fn dt_date(t: DateTime) -> u16 { dos_date(t.year, t.month, t.day) }
pub open spec fn lfh_of(f: ZipFileData, nd: u16) -> Lfh {
    Lfh { needed: nd, flags: flags_of(f), method: method_code(f.compression_method), time: dt_time(f.last_modified_time), date: dt_date(f.last_modified_time),
          crc: f.crc32,
          csize32: if f.large_file { 0xFFFF_FFFFu32 } else { f.compressed_size as u32 },
          usize32: if f.large_file { 0xFFFF_FFFFu32 } else { f.uncompressed_size as u32 },
          name: utf8(f.file_name@),
          extra: if f.large_file { enc_z64_local(f.uncompressed_size, f.compressed_size) } else { Seq::<u8>::empty() } }
}
pub open spec fn z64c_of(f: ZipFileData) -> Seq<u8> {
    enc_z64_central(f.uncompressed_size >= U32MAX, f.compressed_size >= U32MAX, f.header_start >= U32MAX,
                    f.uncompressed_size, f.compressed_size, f.header_start)
}
pub open spec fn cdh_of(f: ZipFileData, nd: u16) -> Cdh {
    Cdh { made_by: (system_code(f.system) << 8) | (f.version_made_by as u16), needed: nd, flags: cflags_of(f),
          method: method_code(f.compression_method), time: dt_time(f.last_modified_time), date: dt_date(f.last_modified_time),
          crc: f.crc32, csize32: sat32(f.compressed_size), usize32: sat32(f.uncompressed_size), disk: 0, iattr: 0,
          eattr: f.external_attributes, off32: sat32(f.header_start), name: utf8(f.file_name@),
          extra_z64: z64c_of(f), extra_rest: f.extra_field@, comment: Seq::<u8>::empty() }
}
