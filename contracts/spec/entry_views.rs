// Shared views of an open entry (used by U8, U8b, U12): spec functions and two Deref shims.
// C04: which reader variants verify the checksum, against which value, with which AE-2 exemption
pub open spec fn crc_checked<'a>(z: ZipFileReader<'a>, crc: u32, ae2: bool, src: CryptoReader<'a>) -> bool {
    match z {
        ZipFileReader::Stored(c) => c.check == crc && c.ae2_encrypted == ae2 && c.hasher@ == Seq::<u8>::empty() && c.inner == src,
        ZipFileReader::Deflated(c) => c.check == crc && c.ae2_encrypted == ae2 && c.hasher@ == Seq::<u8>::empty() && c.inner.g_inner() == src,
        ZipFileReader::Bzip2(c) => c.check == crc && c.ae2_encrypted == ae2 && c.hasher@ == Seq::<u8>::empty() && c.inner.g_inner() == src,
        ZipFileReader::Zstd(c) => c.check == crc && c.ae2_encrypted == ae2 && c.hasher@ == Seq::<u8>::empty() && c.inner.g_inner().g_inner() == src,
        _ => false,
    }
}
// the CRC layer of an open entry: (declared CRC, AE-2 exemption, bytes hashed so far); None for the raw reader / no reader
pub open spec fn zfr_check<'a>(z: ZipFileReader<'a>) -> Option<(u32, bool, Seq<u8>)> {
    match z {
        ZipFileReader::Stored(c) => Some((c.check, c.ae2_encrypted, c.hasher@)),
        ZipFileReader::Deflated(c) => Some((c.check, c.ae2_encrypted, c.hasher@)),
        ZipFileReader::Bzip2(c) => Some((c.check, c.ae2_encrypted, c.hasher@)),
        ZipFileReader::Zstd(c) => Some((c.check, c.ae2_encrypted, c.hasher@)),
        _ => None,
    }
}
// one read through the CRC layer: same declared CRC and exemption, exactly the returned bytes are hashed, and end-of-data
// (Ok(0) on a non-empty buffer) is only reported when the accumulated CRC matches (or the entry is AE-2)
pub open spec fn crc_read_step(before: (u32, bool, Seq<u8>), after: (u32, bool, Seq<u8>), buf_len: int, out: Seq<u8>, r: io::Result<usize>) -> bool {
    after.0 == before.0 && after.1 == before.1
    && (r matches Ok(n) ==> n <= buf_len && after.2 == before.2 + out.subrange(0, n as int)
        && (n == 0 && buf_len > 0 ==> before.1 || before.0 == crc32(before.2)))
}
// the bounded view of the archive a crypto reader sits on (CryptoReader::into_inner, proved in U8)
pub open spec fn crypto_take<'a>(c: CryptoReader<'a>) -> Take<DynRead<'a>> {
    match c {
        CryptoReader::Plaintext(t) => t,
        CryptoReader::ZipCrypto(z) => z.g_file(),
        CryptoReader::Aes { reader: a, .. } => a.g_reader(),
    }
}
// the bounded, undecoded view of the archive under an installed reader, whatever decoder stack sits on it
// (ZipFileReader::into_inner, proved in U8); NoReader has none
pub open spec fn zfr_take<'a>(z: ZipFileReader<'a>) -> Take<DynRead<'a>> {
    match z {
        ZipFileReader::Raw(t) => t,
        ZipFileReader::Stored(c) => crypto_take(c.inner),
        ZipFileReader::Deflated(c) => crypto_take(c.inner.g_inner()),
        ZipFileReader::Bzip2(c) => crypto_take(c.inner.g_inner()),
        ZipFileReader::Zstd(c) => crypto_take(c.inner.g_inner().g_inner()),
        ZipFileReader::NoReader => arbitrary(),
    }
}
// the crypto layer under an installed decoding reader (None for the raw reader / no reader)
pub open spec fn zfr_crypto<'a>(z: ZipFileReader<'a>) -> Option<CryptoReader<'a>> {
    match z {
        ZipFileReader::Stored(c) => Some(c.inner),
        ZipFileReader::Deflated(c) => Some(c.inner.g_inner()),
        ZipFileReader::Bzip2(c) => Some(c.inner.g_inner()),
        ZipFileReader::Zstd(c) => Some(c.inner.g_inner().g_inner()),
        _ => None,
    }
}
// C16: "this entry may report end-of-file": an AES entry only once its authentication code has been read and compared
pub open spec fn aes_authenticated<'a>(c: CryptoReader<'a>) -> bool {
    c matches CryptoReader::Aes { reader: a, .. } ==> a.g_authenticated()
}
// the same crypto reader up to what reading does to it (variant kept; for an AES reader: mode, password kept, authentication never undone)
pub open spec fn crypto_kept<'a>(a: CryptoReader<'a>, b: CryptoReader<'a>) -> bool {
    match a {
        CryptoReader::Aes { reader: a0, vendor_version: v0 } => b matches CryptoReader::Aes { reader: a1, vendor_version: v1 } && v1 == v0
            && a1.g_mode() == a0.g_mode() && a1.g_password() == a0.g_password() && (a0.g_authenticated() ==> a1.g_authenticated()),
        CryptoReader::Plaintext(_) => b is Plaintext,
        CryptoReader::ZipCrypto(_) => b is ZipCrypto,
    }
}
// which decoder stack is installed
pub open spec fn zfr_kind<'a>(z: ZipFileReader<'a>) -> int {
    match z { ZipFileReader::NoReader => 0, ZipFileReader::Raw(_) => 1, ZipFileReader::Stored(_) => 2, ZipFileReader::Deflated(_) => 3,
        ZipFileReader::Bzip2(_) => 4, ZipFileReader::Zstd(_) => 5 }
}
// the undecoded view of an open entry: under the installed reader, or (none installed yet) under the crypto reader
pub open spec fn zf_raw_take<'a>(z: ZipFile<'a>) -> Take<DynRead<'a>> {
    match z.reader {
        ZipFileReader::NoReader => crypto_take(z.crypto_reader.unwrap()),
        other => zfr_take(other),
    }
}
pub open spec fn is_ae2(c: CryptoReader) -> bool { c matches CryptoReader::Aes { vendor_version: AesVendorVersion::Ae2, .. } }
pub open spec fn decodable(m: CompressionMethod) -> bool { m is Stored || m is Deflated || m is Bzip2 || m is Zstd }
// representation invariant of an open entry: until the decoder stack is built, the crypto reader is there
// and the method is one make_reader can decode (established by make_crypto_reader's contract)
pub open spec fn cow_val<'a>(c: Cow<'a, ZipFileData>) -> ZipFileData {
    match c { Cow::Borrowed(b) => *b, Cow::Owned(o) => o }
}
// T7x: `&self.data` / `self.data.<field>` go through Cow's Deref, for which the installed Verus accepts no
// assume_specification (late-bound lifetime mismatch); the call is redirected to this shim.
// ASSUMED: Deref for Cow yields the borrowed or the owned value
#[verifier::external_body]
pub fn shim_cow_ref<'b, 'a>(c: &'b Cow<'a, ZipFileData>) -> (r: &'b ZipFileData)
    ensures *r == cow_val(*c)
{ &**c }
pub open spec fn zf_wf<'a>(z: &ZipFile<'a>) -> bool {
    (z.reader is NoReader ==> z.crypto_reader is Some && decodable(cow_val(z.data).compression_method))
}
// C03: the attribute-to-mode table (also proved bit-precisely by Kani: types/unix_mode_mapping)
pub open spec fn unix_mode_of(f: ZipFileData) -> Option<u32> {
    if f.external_attributes == 0 { None } else {
        match f.system {
            System::Unix => Some(f.external_attributes >> 16),
            System::Dos => {
                let base = if 0x10 == (f.external_attributes & 0x10) { ffi::S_IFDIR | 0o0775 } else { ffi::S_IFREG | 0o0664 };
                Some(if 0x01 == (f.external_attributes & 0x01) { base & 0o0555 } else { base })
            }
            _ => None,
        }
    }
}
#[verifier::external_body]
pub fn shim_string_as_str<'b>(s: &'b String) -> (r: &'b str) ensures r@ == s@ { s.as_str() }
// C10: what the streaming reader must report for a local header
pub open spec fn lstate0(h: Lfh) -> XState {
    XState { usz: h.usize32 as u64, csz: h.csize32 as u64, hs: 0, large: false, aes: None, method: method_of_code(h.method) }
}
pub open spec fn streamed_matches(f: ZipFileData, h: Lfh, made_by: u16) -> bool {
    &&& f.system == system_of_code((made_by >> 8) as u8)
    &&& f.encrypted == (h.flags & 1 == 1)
    &&& f.using_data_descriptor == (h.flags & (1u16 << 3) != 0)
    &&& f.last_modified_time == msdos_dt(h.date, h.time)
    &&& f.crc32 == h.crc
    &&& f.file_name_raw@ == h.name
    &&& f.file_name@ == decode_text(h.flags, h.name)
    &&& f.extra_field@ == h.extra
    &&& (xwf(h.extra, 0, lstate0(h)) ==> (xwalk(h.extra, 0, lstate0(h)) matches Some(st)
            && f.uncompressed_size == st.usz && f.compressed_size == st.csz && f.compression_method == st.method))
}
