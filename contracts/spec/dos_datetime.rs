// APPNOTE 6.3.9 section 4.4.6 / MS-DOS packed date and time.  Written from the specification.
pub open spec fn dos_time(h: u8, m: u8, s: u8) -> u16 { ((s as u16) >> 1) | ((m as u16) << 5) | ((h as u16) << 11) }
pub open spec fn dos_date(y: u16, m: u8, d: u8) -> u16 { (d as u16) | ((m as u16) << 5) | (((y - 1980) as u16) << 9) }
