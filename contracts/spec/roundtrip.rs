// ===========================================================================
// Writer -> reader inverse lemmas (C01, C03, C08, C19): what the header writers are proved to emit
// (enc_lfh / enc_cdh of lfh_of / cdh_of, U5) is read back by the APPNOTE decoder (dec_lfh / dec_cdh,
// xwalk, parsed_matches: what U6 proves of the central parser) as the values that were handed in.
// Everything here is proved; there are no assumptions in this file.
// ===========================================================================

// a window that already holds w is not changed by writing w over it
pub proof fn lemma_put_same(d: Seq<u8>, p: int, w: Seq<u8>)
    requires inb(d, p, w.len() as int), at(d, p, w.len() as int) == w
    ensures put(d, p, w) == d
{
    reveal(put);
    if w.len() > 0 {
        assert forall|i: int| 0 <= i < d.len() implies put(d, p, w)[i] == d[i] by {
            if p <= i < p + w.len() { assert(at(d, p, w.len() as int)[i - p] == d[i]); }
        }
    }
    assert(put(d, p, w) =~= d);
}

// ---- (L1) local file header
pub open spec fn lfh_fixed(h: Lfh) -> Seq<u8> {
    le32(SIG_LFH) + le16(h.needed) + le16(h.flags) + le16(h.method) + le16(h.time) + le16(h.date) + le32(h.crc)
        + le32(h.csize32) + le32(h.usize32) + le16(h.name.len() as u16) + le16(h.extra.len() as u16)
}
proof fn lemma_lfh_fixed(h: Lfh)
    ensures ({ let w = lfh_fixed(h);
        &&& w.len() == 30
        &&& w.subrange(0, 4) == le32(SIG_LFH) &&& w.subrange(4, 6) == le16(h.needed) &&& w.subrange(6, 8) == le16(h.flags)
        &&& w.subrange(8, 10) == le16(h.method) &&& w.subrange(10, 12) == le16(h.time) &&& w.subrange(12, 14) == le16(h.date)
        &&& w.subrange(14, 18) == le32(h.crc) &&& w.subrange(18, 22) == le32(h.csize32) &&& w.subrange(22, 26) == le32(h.usize32)
        &&& w.subrange(26, 28) == le16(h.name.len() as u16) &&& w.subrange(28, 30) == le16(h.extra.len() as u16) })
{
    broadcast use group_le_len;
    let w = lfh_fixed(h);
    assert(w.len() == 30);
    assert(w.subrange(0, 4) =~= le32(SIG_LFH));
    assert(w.subrange(4, 6) =~= le16(h.needed));
    assert(w.subrange(6, 8) =~= le16(h.flags));
    assert(w.subrange(8, 10) =~= le16(h.method));
    assert(w.subrange(10, 12) =~= le16(h.time));
    assert(w.subrange(12, 14) =~= le16(h.date));
    assert(w.subrange(14, 18) =~= le32(h.crc));
    assert(w.subrange(18, 22) =~= le32(h.csize32));
    assert(w.subrange(22, 26) =~= le32(h.usize32));
    assert(w.subrange(26, 28) =~= le16(h.name.len() as u16));
    assert(w.subrange(28, 30) =~= le16(h.extra.len() as u16));
}
// reading a window of the fixed part of (fx + tail) written at p
proof fn lemma_at_put_prefix(b: Seq<u8>, p: int, fx: Seq<u8>, w: Seq<u8>, k: int, n: int)
    requires 0 <= p, 0 <= k, 0 <= n, k + n <= fx.len(), fx.len() <= w.len(), w.subrange(0, fx.len() as int) == fx, w.len() > 0
    ensures at(put(b, p, w), p + k, n) == fx.subrange(k, k + n), inb(put(b, p, w), p + k, n)
{
    lemma_at_put(b, p, w, k, n);
    assert(w.subrange(k, k + n) =~= w.subrange(0, fx.len() as int).subrange(k, k + n));
}
// @props: C01 C02 C10 -- APPNOTE decode of an encoded local header at any offset returns the header (dec_lfh(enc_lfh(h)) == h)
pub proof fn lemma_lfh_roundtrip(b: Seq<u8>, p: int, h: Lfh)
    requires 0 <= p, h.name.len() <= 0xFFFF, h.extra.len() <= 0xFFFF
    ensures lfh_at(put(b, p, enc_lfh(h)), p), dec_lfh(put(b, p, enc_lfh(h)), p) == h, enc_lfh(h).len() == 30 + h.name.len() + h.extra.len()
{
    broadcast use group_le_len;
    let fx = lfh_fixed(h);
    let w = enc_lfh(h);
    let d = put(b, p, w);
    let nl = h.name.len() as int;
    let el = h.extra.len() as int;
    lemma_lfh_fixed(h);
    assert(w == fx + h.name + h.extra);
    assert(w.len() == 30 + nl + el);
    assert(w.subrange(0, 30) =~= fx);
    lemma_le32_inv(SIG_LFH); lemma_le16_inv(h.needed); lemma_le16_inv(h.flags); lemma_le16_inv(h.method); lemma_le16_inv(h.time);
    lemma_le16_inv(h.date); lemma_le32_inv(h.crc); lemma_le32_inv(h.csize32); lemma_le32_inv(h.usize32);
    lemma_le16_inv(h.name.len() as u16); lemma_le16_inv(h.extra.len() as u16);
    lemma_at_put_prefix(b, p, fx, w, 0, 4);
    lemma_at_put_prefix(b, p, fx, w, 4, 2);
    lemma_at_put_prefix(b, p, fx, w, 6, 2);
    lemma_at_put_prefix(b, p, fx, w, 8, 2);
    lemma_at_put_prefix(b, p, fx, w, 10, 2);
    lemma_at_put_prefix(b, p, fx, w, 12, 2);
    lemma_at_put_prefix(b, p, fx, w, 14, 4);
    lemma_at_put_prefix(b, p, fx, w, 18, 4);
    lemma_at_put_prefix(b, p, fx, w, 22, 4);
    lemma_at_put_prefix(b, p, fx, w, 26, 2);
    lemma_at_put_prefix(b, p, fx, w, 28, 2);
    assert(h.name.len() as u16 as int == nl);
    assert(h.extra.len() as u16 as int == el);
    assert(lfh_name_len(d, p) == nl);
    assert(lfh_extra_len(d, p) == el);
    lemma_at_put(b, p, w, 30, nl); assert(w.subrange(30, 30 + nl) =~= h.name);
    lemma_at_put(b, p, w, 30 + nl, el); assert(w.subrange(30 + nl, 30 + nl + el) =~= h.extra);
    lemma_at_put(b, p, w, 0, 30);
    lemma_at_put(b, p, w, 0, 30 + nl + el);
    assert(dec_lfh(d, p).name == h.name);
    assert(dec_lfh(d, p).extra == h.extra);
}

// ---- (L2) central directory header
pub open spec fn cdh_fixed(h: Cdh) -> Seq<u8> {
    le32(SIG_CDH) + le16(h.made_by) + le16(h.needed) + le16(h.flags) + le16(h.method) + le16(h.time) + le16(h.date) + le32(h.crc)
        + le32(h.csize32) + le32(h.usize32) + le16(h.name.len() as u16) + le16((h.extra_z64.len() + h.extra_rest.len()) as u16) + le16(h.comment.len() as u16)
        + le16(h.disk) + le16(h.iattr) + le32(h.eattr) + le32(h.off32)
}
proof fn lemma_cdh_fixed(h: Cdh)
    ensures ({ let w = cdh_fixed(h);
        &&& w.len() == 46
        &&& w.subrange(0, 4) == le32(SIG_CDH) &&& w.subrange(4, 6) == le16(h.made_by) &&& w.subrange(6, 8) == le16(h.needed)
        &&& w.subrange(8, 10) == le16(h.flags) &&& w.subrange(10, 12) == le16(h.method) &&& w.subrange(12, 14) == le16(h.time)
        &&& w.subrange(14, 16) == le16(h.date) &&& w.subrange(16, 20) == le32(h.crc) &&& w.subrange(20, 24) == le32(h.csize32)
        &&& w.subrange(24, 28) == le32(h.usize32) &&& w.subrange(28, 30) == le16(h.name.len() as u16)
        &&& w.subrange(30, 32) == le16((h.extra_z64.len() + h.extra_rest.len()) as u16) &&& w.subrange(32, 34) == le16(h.comment.len() as u16)
        &&& w.subrange(34, 36) == le16(h.disk) &&& w.subrange(36, 38) == le16(h.iattr) &&& w.subrange(38, 42) == le32(h.eattr)
        &&& w.subrange(42, 46) == le32(h.off32) })
{
    broadcast use group_le_len;
    let w = cdh_fixed(h);
    assert(w.len() == 46);
    assert(w.subrange(0, 4) =~= le32(SIG_CDH));
    assert(w.subrange(4, 6) =~= le16(h.made_by));
    assert(w.subrange(6, 8) =~= le16(h.needed));
    assert(w.subrange(8, 10) =~= le16(h.flags));
    assert(w.subrange(10, 12) =~= le16(h.method));
    assert(w.subrange(12, 14) =~= le16(h.time));
    assert(w.subrange(14, 16) =~= le16(h.date));
    assert(w.subrange(16, 20) =~= le32(h.crc));
    assert(w.subrange(20, 24) =~= le32(h.csize32));
    assert(w.subrange(24, 28) =~= le32(h.usize32));
    assert(w.subrange(28, 30) =~= le16(h.name.len() as u16));
    assert(w.subrange(30, 32) =~= le16((h.extra_z64.len() + h.extra_rest.len()) as u16));
    assert(w.subrange(32, 34) =~= le16(h.comment.len() as u16));
    assert(w.subrange(34, 36) =~= le16(h.disk));
    assert(w.subrange(36, 38) =~= le16(h.iattr));
    assert(w.subrange(38, 42) =~= le32(h.eattr));
    assert(w.subrange(42, 46) =~= le32(h.off32));
}
// what the decoder returns for an encoded header: everything, except that it cannot split the extra field
pub open spec fn cdh_joined(h: Cdh) -> Cdh {
    Cdh { extra_z64: Seq::<u8>::empty(), extra_rest: h.extra_z64 + h.extra_rest, ..h }
}
// @props: C01 C02 C13 -- APPNOTE decode of an encoded central header returns it (extra field joined)
pub proof fn lemma_cdh_roundtrip(b: Seq<u8>, p: int, h: Cdh)
    requires 0 <= p, h.name.len() <= 0xFFFF, h.extra_z64.len() + h.extra_rest.len() <= 0xFFFF, h.comment.len() <= 0xFFFF
    ensures
        cdh_at(put(b, p, enc_cdh(h)), p),
        enc_cdh(h).len() == 46 + h.name.len() + h.extra_z64.len() + h.extra_rest.len() + h.comment.len(),
        cdh_len(put(b, p, enc_cdh(h)), p) == enc_cdh(h).len(),
        dec_cdh(put(b, p, enc_cdh(h)), p) == cdh_joined(h),
        dec_cdh(put(b, p, enc_cdh(h)), p) == (Cdh { made_by: h.made_by, needed: h.needed, flags: h.flags, method: h.method, time: h.time,
            date: h.date, crc: h.crc, csize32: h.csize32, usize32: h.usize32, disk: h.disk, iattr: h.iattr, eattr: h.eattr, off32: h.off32,
            name: h.name, extra_z64: Seq::<u8>::empty(), extra_rest: h.extra_z64 + h.extra_rest, comment: h.comment }),
{
    broadcast use group_le_len;
    let fx = cdh_fixed(h);
    let w = enc_cdh(h);
    let d = put(b, p, w);
    let nl = h.name.len() as int;
    let xl = (h.extra_z64.len() + h.extra_rest.len()) as int;
    let cl = h.comment.len() as int;
    lemma_cdh_fixed(h);
    assert(w == fx + h.name + h.extra_z64 + h.extra_rest + h.comment);
    assert(w.len() == 46 + nl + xl + cl);
    assert(w.subrange(0, 46) =~= fx);
    lemma_le32_inv(SIG_CDH); lemma_le16_inv(h.made_by); lemma_le16_inv(h.needed); lemma_le16_inv(h.flags); lemma_le16_inv(h.method);
    lemma_le16_inv(h.time); lemma_le16_inv(h.date); lemma_le32_inv(h.crc); lemma_le32_inv(h.csize32); lemma_le32_inv(h.usize32);
    lemma_le16_inv(h.name.len() as u16); lemma_le16_inv((h.extra_z64.len() + h.extra_rest.len()) as u16); lemma_le16_inv(h.comment.len() as u16);
    lemma_le16_inv(h.disk); lemma_le16_inv(h.iattr); lemma_le32_inv(h.eattr); lemma_le32_inv(h.off32);
    lemma_at_put_prefix(b, p, fx, w, 0, 4);
    lemma_at_put_prefix(b, p, fx, w, 4, 2);
    lemma_at_put_prefix(b, p, fx, w, 6, 2);
    lemma_at_put_prefix(b, p, fx, w, 8, 2);
    lemma_at_put_prefix(b, p, fx, w, 10, 2);
    lemma_at_put_prefix(b, p, fx, w, 12, 2);
    lemma_at_put_prefix(b, p, fx, w, 14, 2);
    lemma_at_put_prefix(b, p, fx, w, 16, 4);
    lemma_at_put_prefix(b, p, fx, w, 20, 4);
    lemma_at_put_prefix(b, p, fx, w, 24, 4);
    lemma_at_put_prefix(b, p, fx, w, 28, 2);
    lemma_at_put_prefix(b, p, fx, w, 30, 2);
    lemma_at_put_prefix(b, p, fx, w, 32, 2);
    lemma_at_put_prefix(b, p, fx, w, 34, 2);
    lemma_at_put_prefix(b, p, fx, w, 36, 2);
    lemma_at_put_prefix(b, p, fx, w, 38, 4);
    lemma_at_put_prefix(b, p, fx, w, 42, 4);
    assert(h.name.len() as u16 as int == nl);
    assert((h.extra_z64.len() + h.extra_rest.len()) as u16 as int == xl);
    assert(h.comment.len() as u16 as int == cl);
    assert(cdh_name_len(d, p) == nl);
    assert(cdh_extra_len(d, p) == xl);
    assert(cdh_comment_len(d, p) == cl);
    lemma_at_put(b, p, w, 46, nl); assert(w.subrange(46, 46 + nl) =~= h.name);
    lemma_at_put(b, p, w, 46 + nl, xl); assert(w.subrange(46 + nl, 46 + nl + xl) =~= h.extra_z64 + h.extra_rest);
    lemma_at_put(b, p, w, 46 + nl + xl, cl); assert(w.subrange(46 + nl + xl, 46 + nl + xl + cl) =~= h.comment);
    lemma_at_put(b, p, w, 0, 46);
    lemma_at_put(b, p, w, 0, 46 + nl + xl + cl);
    assert(dec_cdh(d, p).name == h.name);
    assert(dec_cdh(d, p).extra_rest == h.extra_z64 + h.extra_rest);
    assert(dec_cdh(d, p).comment == h.comment);
}

// ---- (L3) the ZIP64 walk inverse
// the records from pos tile x exactly and none of them is a ZIP64 (0x0001) or AES (0x9901) record
pub open spec fn xneutral(x: Seq<u8>, pos: int) -> bool
    decreases x.len() - pos
{
    if pos >= x.len() { pos == x.len() } else {
        inb(x, pos, 4) && pos + 4 + xlen(x, pos) <= x.len()
        && xkind(x, pos) != 0x0001 && xkind(x, pos) != 0x9901
        && xneutral(x, pos + 4 + xlen(x, pos))
    }
}
// such records are well formed for, and leave alone, ANY reader state
// @props: C08 C03 -- records other than ZIP64/AES leave the walk state unchanged, in any order
pub proof fn lemma_xneutral_walk(x: Seq<u8>, pos: int, st: XState)
    requires xneutral(x, pos)
    ensures xwf(x, pos, st), xwalk(x, pos, st) == Some(st)
    decreases x.len() - pos
{
    if pos >= x.len() {
    } else {
        lemma_xneutral_walk(x, pos + 4 + xlen(x, pos), st);
    }
}
// neutrality is about the records only, not about what precedes them
pub proof fn lemma_xneutral_shift(pre: Seq<u8>, r: Seq<u8>, q: int)
    requires xneutral(r, q), 0 <= q
    ensures xneutral(pre + r, pre.len() + q)
    decreases r.len() - q
{
    let x = pre + r;
    let pq = pre.len() + q;
    if q >= r.len() {
    } else {
        assert(at(x, pq, 2) =~= at(r, q, 2));
        assert(at(x, pq + 2, 2) =~= at(r, q + 2, 2));
        assert(xkind(x, pq) == xkind(r, q));
        assert(xlen(x, pq) == xlen(r, q));
        lemma_xneutral_shift(pre, r, q + 4 + xlen(r, q));
    }
}
// the central ZIP64 record written for (u, c, o), followed by neutral records, read from a state that holds the
// saturated 32-bit header fields: the reader ends up with exactly (u, c, o).  Note the asymmetry that this closes:
// the writer includes a value when it is >= 0xFFFFFFFF, the reader expects one when the 32-bit field == 0xFFFFFFFF.
pub proof fn lemma_z64_walk_core(u: u64, c: u64, o: u64, rest: Seq<u8>, st0: XState)
    requires xneutral(rest, 0), st0.usz == sat32(u) as u64, st0.csz == sat32(c) as u64, st0.hs == sat32(o) as u64
    ensures ({ let x = enc_z64_central(u >= U32MAX, c >= U32MAX, o >= U32MAX, u, c, o) + rest;
        &&& xwf(x, 0, st0)
        &&& xwalk(x, 0, st0) matches Some(st) && st.usz == u && st.csz == c && st.hs == o && st.aes == st0.aes && st.method == st0.method
                && st.large == (st0.large || u >= U32MAX || c >= U32MAX) })
{
    broadcast use group_le_len;
    let iu = u >= U32MAX; let ic = c >= U32MAX; let ih = o >= U32MAX;
    let z = enc_z64_central(iu, ic, ih, u, c, o);
    let x = z + rest;
    if !iu && !ic && !ih {
        assert(x =~= rest);
        lemma_xneutral_walk(rest, 0, st0);
    } else {
        let n = z64_count(iu, ic, ih);
        lemma_le16_inv(0x0001); lemma_le16_inv((8 * n) as u16); lemma_le64_inv(u); lemma_le64_inv(c); lemma_le64_inv(o);
        assert(z.len() == 4 + 8 * n);
        assert(at(x, 0, 2) =~= le16(0x0001));
        assert(at(x, 2, 2) =~= le16((8 * n) as u16));
        assert(xkind(x, 0) == 0x0001);
        assert(xlen(x, 0) == 8 * n);
        let p1: int = if iu { 12 } else { 4 };
        let p2: int = if ic { p1 + 8 } else { p1 };
        if iu { assert(at(x, 4, 8) =~= le64(u)); }
        if ic { assert(at(x, p1, 8) =~= le64(c)); }
        if ih { assert(at(x, p2, 8) =~= le64(o)); }
        let st1 = z64_apply(x, 4, st0);
        assert(z64_need(st0) == n);
        assert(st1.usz == u && st1.csz == c && st1.hs == o);
        lemma_xneutral_shift(z, rest, 0);
        lemma_xneutral_walk(x, 4 + 8 * n, st1);
    }
}
// @props: C08 C01 C02 -- the reader's extra-field walk over the central header the writer emits recovers both sizes and the offset for ALL u64 values incl. exactly 0xFFFFFFFF
pub proof fn lemma_central_zip64_walk(f: ZipFileData, nd: u16)
    requires xneutral(f.extra_field@, 0), z64c_of(f).len() + f.extra_field@.len() <= 0xFFFF
    ensures ({ let h = cdh_of(f, nd); let x = h.extra_z64 + h.extra_rest;
        &&& xwf(x, 0, xstate0(h))
        &&& xwalk(x, 0, xstate0(h)) matches Some(st) && st.usz == f.uncompressed_size && st.csz == f.compressed_size
                && st.hs == f.header_start && st.aes is None && st.method == method_of_code(method_code(f.compression_method))
                && st.large == (f.uncompressed_size >= U32MAX || f.compressed_size >= U32MAX) })
{
    let h = cdh_of(f, nd);
    lemma_z64_walk_core(f.uncompressed_size, f.compressed_size, f.header_start, f.extra_field@, xstate0(h));
}

// ---- (L4) an entry written by the central header writer is read back by a parser that satisfies parsed_matches
// 4.4.6: the MS-DOS time/date packing is inverted by the reader's unpacking (seconds lose their lowest bit)
pub proof fn lemma_dos_time_inv(h: u8, m: u8, s: u8)
    requires h <= 23, m <= 59, s <= 59
    ensures ({ let t = dos_time(h, m, s);
        &&& ((t & 0b1111100000000000) >> 11) as u8 == h
        &&& ((t & 0b0000011111100000) >> 5) as u8 == m
        &&& ((t & 0b0000000000011111) << 1) as u8 == s & 0xFE })
{
    assert(({ let t = ((s as u16) >> 1) | ((m as u16) << 5) | ((h as u16) << 11);
        &&& ((t & 0b1111100000000000) >> 11) as u8 == h
        &&& ((t & 0b0000011111100000) >> 5) as u8 == m
        &&& ((t & 0b0000000000011111) << 1) as u8 == s & 0xFE })) by(bit_vector)
        requires h <= 23, m <= 59, s <= 59;
}
pub proof fn lemma_dos_date_inv(y: u16, m: u8, d: u8)
    requires 1980 <= y <= 2107, m <= 15, d <= 31
    ensures ({ let t = dos_date(y, m, d);
        &&& (((t & 0b1111111000000000) >> 9) + 1980) as u16 == y
        &&& ((t & 0b0000000111100000) >> 5) as u8 == m
        &&& (t & 0b0000000000011111) as u8 == d })
{
    let yy: u16 = (y - 1980) as u16;
    assert(({ let t = (d as u16) | ((m as u16) << 5) | (yy << 9);
        &&& (t & 0b1111111000000000) >> 9 == yy
        &&& ((t & 0b0000000111100000) >> 5) as u8 == m
        &&& (t & 0b0000000000011111) as u8 == d })) by(bit_vector)
        requires yy <= 127, m <= 15, d <= 31;
}
pub proof fn lemma_msdos_dt_inv(t: DateTime)
    requires 1980 <= t.year <= 2107, 1 <= t.month <= 12, 1 <= t.day <= 31, t.hour <= 23, t.minute <= 59, t.second <= 59
    ensures ({ let r = msdos_dt(dt_date(t), dt_time(t));
        r.year == t.year && r.month == t.month && r.day == t.day && r.hour == t.hour && r.minute == t.minute && r.second == t.second & 0xFE })
{
    lemma_dos_time_inv(t.hour, t.minute, t.second);
    lemma_dos_date_inv(t.year, t.month, t.day);
}
pub proof fn lemma_made_by_inv(s: System, v: u8)
    ensures ({ let mb = (system_code(s) << 8) | (v as u16);
        &&& mb as u8 == v
        &&& (s is Dos || s is Unix) ==> system_of_code((mb >> 8) as u8) == s })
{
    assert((((0u16 << 8) | (v as u16)) >> 8) as u8 == 0 && ((0u16 << 8) | (v as u16)) as u8 == v) by(bit_vector);
    assert((((3u16 << 8) | (v as u16)) >> 8) as u8 == 3 && ((3u16 << 8) | (v as u16)) as u8 == v) by(bit_vector);
    assert((((4u16 << 8) | (v as u16)) >> 8) as u8 == 4 && ((4u16 << 8) | (v as u16)) as u8 == v) by(bit_vector);
}
// @props: C01 C02 C13 C18 C19 -- an entry whose central header is enc_cdh(cdh_of(f)) is parsed back with the same name, CRC, sizes, offset, method, attributes, flags and the timestamp to 2 s
pub proof fn lemma_entry_reads_back(d: Seq<u8>, p: int, f: ZipFileData, g: ZipFileData, nd: u16, chs: u64)
    requires
        0 <= p, utf8(f.file_name@).len() <= 0xFFFF, z64c_of(f).len() + f.extra_field@.len() <= 0xFFFF, xneutral(f.extra_field@, 0),
        inb(d, p, enc_cdh(cdh_of(f, nd)).len() as int), at(d, p, enc_cdh(cdh_of(f, nd)).len() as int) == enc_cdh(cdh_of(f, nd)),
        parsed_matches(g, dec_cdh(d, p), chs, 0),
        f.compression_method is Stored || f.compression_method is Deflated || f.compression_method is Bzip2 || f.compression_method is Zstd,
        1980 <= f.last_modified_time.year <= 2107, 1 <= f.last_modified_time.month <= 12, 1 <= f.last_modified_time.day <= 31,
        f.last_modified_time.hour <= 23, f.last_modified_time.minute <= 59, f.last_modified_time.second <= 59,
    ensures
        cdh_at(d, p),
        g.file_name@ == f.file_name@,
        g.file_name_raw@ == utf8(f.file_name@),
        g.file_comment@ == decode_text(cflags_of(f), Seq::<u8>::empty()),
        g.crc32 == f.crc32,
        g.uncompressed_size == f.uncompressed_size,
        g.compressed_size == f.compressed_size,
        g.header_start == f.header_start,
        g.central_header_start == chs,
        g.compression_method == f.compression_method,
        g.aes_mode is None,
        g.large_file == (f.uncompressed_size >= U32MAX || f.compressed_size >= U32MAX),
        g.external_attributes == f.external_attributes,
        g.encrypted == f.encrypted,
        g.using_data_descriptor == f.using_data_descriptor,
        g.version_made_by == f.version_made_by,
        (f.system is Dos || f.system is Unix) ==> g.system == f.system,
        g.extra_field@ == z64c_of(f) + f.extra_field@,
        g.last_modified_time.year == f.last_modified_time.year,
        g.last_modified_time.month == f.last_modified_time.month,
        g.last_modified_time.day == f.last_modified_time.day,
        g.last_modified_time.hour == f.last_modified_time.hour,
        g.last_modified_time.minute == f.last_modified_time.minute,
        g.last_modified_time.second == f.last_modified_time.second & 0xFE,
{
    let h = cdh_of(f, nd);
    let w = enc_cdh(h);
    lemma_put_same(d, p, w);
    lemma_cdh_roundtrip(d, p, h);
    let h2 = dec_cdh(d, p);
    assert(h2 == cdh_joined(h));
    lemma_central_zip64_walk(f, nd);
    assert(xstate0(h2) == xstate0(h));
    assert(h2.extra_rest == z64c_of(f) + f.extra_field@);
    lemma_written_name_reads_back(f);
    lemma_flags_meaning(f);
    lemma_cflags_meaning(f);
    lemma_msdos_dt_inv(f.last_modified_time);
    lemma_made_by_inv(f.system, f.version_made_by);
}

// ---- (L5) the whole directory: what finalize is proved to leave in the sink (dir_written, U7) is walked by the reader
// (dir_parsed: what U8b proves of ZipArchive::new and U7b of new_append) record for record
// what lemma_entry_reads_back needs of an entry beyond what dir_written already records about it
pub open spec fn entry_readable(f: ZipFileData) -> bool {
    &&& xneutral(f.extra_field@, 0)
    &&& (f.compression_method is Stored || f.compression_method is Deflated || f.compression_method is Bzip2 || f.compression_method is Zstd)
    &&& 1980 <= f.last_modified_time.year <= 2107 && 1 <= f.last_modified_time.month <= 12 && 1 <= f.last_modified_time.day <= 31
    &&& f.last_modified_time.hour <= 23 && f.last_modified_time.minute <= 59 && f.last_modified_time.second <= 59
}
// the entry g the reader reports carries the metadata of the entry f that was written (timestamp to 2 s)
pub open spec fn entry_read_back(f: ZipFileData, g: ZipFileData) -> bool {
    &&& g.file_name@ == f.file_name@
    &&& g.file_name_raw@ == utf8(f.file_name@)
    &&& g.crc32 == f.crc32
    &&& g.uncompressed_size == f.uncompressed_size
    &&& g.compressed_size == f.compressed_size
    &&& g.header_start == f.header_start
    &&& g.compression_method == f.compression_method
    &&& g.aes_mode is None
    &&& g.external_attributes == f.external_attributes
    &&& g.encrypted == f.encrypted
    &&& g.using_data_descriptor == f.using_data_descriptor
    &&& g.version_made_by == f.version_made_by
    &&& ((f.system is Dos || f.system is Unix) ==> g.system == f.system)
    &&& g.extra_field@ == z64c_of(f) + f.extra_field@
    &&& g.last_modified_time.year == f.last_modified_time.year
    &&& g.last_modified_time.month == f.last_modified_time.month
    &&& g.last_modified_time.day == f.last_modified_time.day
    &&& g.last_modified_time.hour == f.last_modified_time.hour
    &&& g.last_modified_time.minute == f.last_modified_time.minute
    &&& g.last_modified_time.second == f.last_modified_time.second & 0xFE
}
// the reader's walk (next = current + the length fields it decodes) visits the offsets the writer wrote at
pub proof fn lemma_walks_agree(d: Seq<u8>, files: Seq<ZipFileData>, cs: int, j: int)
    requires 0 <= cs, 0 <= j <= files.len(), dir_written(d, files, cs, files.len() as int)
    ensures cd_pos(d, cs, j) == cdw_pos(files, cs, j)
    decreases j
{
    if j > 0 {
        lemma_walks_agree(d, files, cs, j - 1);
        let p = cdw_pos(files, cs, j - 1);
        let f = files[j - 1];
        lemma_cdw_pos_mono(files, cs, j - 1, j - 1);
        assert(cdh_rec_at(d, f, p));
        let nd = choose|nd: u16| needed_ok(f, nd) && (#[trigger] le16(nd)).len() == 2 && inb(d, p, cdh_rec_len(f))
            && at(d, p, cdh_rec_len(f)) == enc_cdh(cdh_of(f, nd));
        let h = cdh_of(f, nd);
        lemma_cdh_rec_len(f, nd);
        lemma_put_same(d, p, enc_cdh(h));
        lemma_cdh_roundtrip(d, p, h);
        assert(cdh_len(d, p) == cdh_rec_len(f));
    }
}
// @props: C01 C02 C13 -- the directory the writer emits is walked by the reader record for record and every entry comes back with the metadata it was written with
pub proof fn lemma_directory_reads_back(d: Seq<u8>, files: Seq<ZipFileData>, cs: int, got: Seq<ZipFileData>)
    requires
        0 <= cs,
        dir_written(d, files, cs, files.len() as int),
        got.len() == files.len(),
        dir_parsed(d, cs, got, 0),
        forall|j: int| 0 <= j < files.len() ==> entry_readable(#[trigger] files[j]),
    ensures
        forall|j: int| 0 <= j <= files.len() ==> #[trigger] cd_pos(d, cs, j) == cdw_pos(files, cs, j),
        forall|j: int| 0 <= j < files.len() ==> entry_read_back(files[j], #[trigger] got[j])
            && got[j].central_header_start == cdw_pos(files, cs, j) as u64,
{
    assert forall|j: int| 0 <= j <= files.len() implies #[trigger] cd_pos(d, cs, j) == cdw_pos(files, cs, j) by {
        lemma_walks_agree(d, files, cs, j);
    }
    assert forall|j: int| 0 <= j < files.len() implies entry_read_back(files[j], #[trigger] got[j])
        && got[j].central_header_start == cdw_pos(files, cs, j) as u64 by {
        let p = cdw_pos(files, cs, j);
        let f = files[j];
        assert(cd_pos(d, cs, j) == p);
        lemma_cdw_pos_mono(files, cs, j, j);
        assert(cdh_rec_at(d, f, p));
        let nd = choose|nd: u16| needed_ok(f, nd) && (#[trigger] le16(nd)).len() == 2 && inb(d, p, cdh_rec_len(f))
            && at(d, p, cdh_rec_len(f)) == enc_cdh(cdh_of(f, nd));
        lemma_cdh_rec_len(f, nd);
        assert(entry_readable(f));
        assert(parsed_matches(got[j], dec_cdh(d, p), p as u64, 0));
        lemma_entry_reads_back(d, p, f, got[j], nd, p as u64);
    }
}
