// ---- C19 / C01: a name handed to the writer is read back as the same string.
// The writer stores utf8(name) and sets the language-encoding flag (bit 11) exactly for non-ASCII names (lfh_of / cdh_of,
// flags_of: proved of write_local_file_header / write_central_directory_header); the readers decode the stored bytes with
// decode_text(flags, bytes) (proved of central_header_to_zip_file_inner / read_zipfile_from_stream).  This lemma closes the loop.
// @props: C19 C01 -- a name the writer stores (utf8 bytes, bit 11 iff non-ASCII) decodes back to the same string
pub proof fn lemma_written_name_reads_back(f: ZipFileData)
    ensures
        decode_text(flags_of(f), utf8(f.file_name@)) == f.file_name@,
        decode_text(lfh_of(f, 20).flags, lfh_of(f, 20).name) == f.file_name@,
        decode_text(cdh_of(f, 20).flags, cdh_of(f, 20).name) == f.file_name@,
{
    lemma_flags_meaning(f);
    lemma_cflags_meaning(f);
    let fl = flags_of(f);
    assert((fl & (1u16 << 11) != 0) == (fl & 0x0800 != 0)) by(bit_vector);
    if f.file_name.is_ascii() {
        let s = f.file_name@;
        axiom_utf8_ascii(s);
        let b = utf8(s);
        assert forall|i: int| 0 <= i < b.len() implies b[i] < 0x80 by {
            let c = s[i];
            assert((c as u32) < 128);
            assert((c as u8) < 0x80);
        }
        axiom_cp437_ascii(b);
        assert forall|i: int| 0 <= i < s.len() implies cp437(b)[i] == s[i] by {
            let c = s[i];
            assert((c as u32) < 128);
            assert(((c as u8) as char) == c);
        }
        assert(cp437(b) =~= s);
    } else {
        axiom_utf8_lossy_inverse(f.file_name@);
    }
}
