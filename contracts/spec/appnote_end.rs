// ===========================================================================
// APPNOTE 6.3.9 record layouts, written from the specification's field tables
// (sections 4.3.14 - 4.3.16), not from the code.  These are the oracle for
// "independent parser" (C02), "read faithfully" (C03) and ZIP64 (C08).
// ===========================================================================
pub const SIG_EOCD: u32 = 0x06054b50;
pub const SIG_Z64_EOCD: u32 = 0x06064b50;
pub const SIG_Z64_LOC: u32 = 0x07064b50;

// 4.3.16 End of central directory record
pub struct Eocd { pub disk: u16, pub cd_disk: u16, pub n_this: u16, pub n_total: u16, pub cd_size: u32, pub cd_off: u32, pub comment: Seq<u8> }
pub open spec fn enc_eocd(e: Eocd) -> Seq<u8> {
    le32(SIG_EOCD) + le16(e.disk) + le16(e.cd_disk) + le16(e.n_this) + le16(e.n_total)
        + le32(e.cd_size) + le32(e.cd_off) + le16(e.comment.len() as u16) + e.comment
}
pub open spec fn sig_at(d: Seq<u8>, p: int, sig: u32) -> bool { inb(d, p, 4) && de32(at(d, p, 4)) == sig }
pub open spec fn eocd_comment_len(d: Seq<u8>, p: int) -> int { de16(at(d, p + 20, 2)) as int }
// a complete record is present at p
pub open spec fn eocd_at(d: Seq<u8>, p: int) -> bool {
    sig_at(d, p, SIG_EOCD) && inb(d, p, 22) && inb(d, p, 22 + eocd_comment_len(d, p))
}
pub open spec fn dec_eocd(d: Seq<u8>, p: int) -> Eocd {
    Eocd { disk: de16(at(d, p + 4, 2)), cd_disk: de16(at(d, p + 6, 2)), n_this: de16(at(d, p + 8, 2)), n_total: de16(at(d, p + 10, 2)),
           cd_size: de32(at(d, p + 12, 4)), cd_off: de32(at(d, p + 16, 4)), comment: at(d, p + 22, eocd_comment_len(d, p)) }
}

// 4.3.15 Zip64 end of central directory locator (20 bytes)
pub struct Z64Loc { pub cd_disk: u32, pub z64_off: u64, pub n_disks: u32 }
pub open spec fn enc_z64loc(l: Z64Loc) -> Seq<u8> { le32(SIG_Z64_LOC) + le32(l.cd_disk) + le64(l.z64_off) + le32(l.n_disks) }
pub open spec fn z64loc_at(d: Seq<u8>, p: int) -> bool { sig_at(d, p, SIG_Z64_LOC) && inb(d, p, 20) }
pub open spec fn dec_z64loc(d: Seq<u8>, p: int) -> Z64Loc {
    Z64Loc { cd_disk: de32(at(d, p + 4, 4)), z64_off: de64(at(d, p + 8, 8)), n_disks: de32(at(d, p + 16, 4)) }
}

// 4.3.14 Zip64 end of central directory record (fixed part, 56 bytes; size field = 44 when no extensible data)
pub struct Z64Eocd { pub made_by: u16, pub needed: u16, pub disk: u32, pub cd_disk: u32, pub n_this: u64, pub n_total: u64, pub cd_size: u64, pub cd_off: u64 }
pub open spec fn enc_z64eocd(z: Z64Eocd) -> Seq<u8> {
    le32(SIG_Z64_EOCD) + le64(44) + le16(z.made_by) + le16(z.needed) + le32(z.disk) + le32(z.cd_disk)
        + le64(z.n_this) + le64(z.n_total) + le64(z.cd_size) + le64(z.cd_off)
}
pub open spec fn z64eocd_at(d: Seq<u8>, p: int) -> bool { sig_at(d, p, SIG_Z64_EOCD) && inb(d, p, 56) }
pub open spec fn dec_z64eocd(d: Seq<u8>, p: int) -> Z64Eocd {
    Z64Eocd { made_by: de16(at(d, p + 12, 2)), needed: de16(at(d, p + 14, 2)), disk: de32(at(d, p + 16, 4)), cd_disk: de32(at(d, p + 20, 4)),
              n_this: de64(at(d, p + 24, 8)), n_total: de64(at(d, p + 32, 8)), cd_size: de64(at(d, p + 40, 8)), cd_off: de64(at(d, p + 48, 8)) }
}

// views of the crate's structs as APPNOTE records (ghost)
pub open spec fn cde_view(c: CentralDirectoryEnd) -> Eocd {
    Eocd { disk: c.disk_number, cd_disk: c.disk_with_central_directory, n_this: c.number_of_files_on_this_disk, n_total: c.number_of_files,
           cd_size: c.central_directory_size, cd_off: c.central_directory_offset, comment: c.zip_file_comment@ }
}
pub open spec fn loc_view(l: Zip64CentralDirectoryEndLocator) -> Z64Loc {
    Z64Loc { cd_disk: l.disk_with_central_directory, z64_off: l.end_of_central_directory_offset, n_disks: l.number_of_disks }
}
pub open spec fn z64_view(z: Zip64CentralDirectoryEnd) -> Z64Eocd {
    Z64Eocd { made_by: z.version_made_by, needed: z.version_needed_to_extract, disk: z.disk_number, cd_disk: z.disk_with_central_directory,
              n_this: z.number_of_files_on_this_disk, n_total: z.number_of_files, cd_size: z.central_directory_size, cd_off: z.central_directory_offset }
}

// ---- inverse lemmas: what the writer emits, the APPNOTE decoder reads back (C01, C08)
// @props: C01 C02 C08 -- dec_eocd(enc_eocd(e)) == e at any offset
pub proof fn lemma_eocd_roundtrip(b: Seq<u8>, p: int, e: Eocd)
    requires 0 <= p, e.comment.len() <= 0xFFFF
    ensures eocd_at(put(b, p, enc_eocd(e)), p), dec_eocd(put(b, p, enc_eocd(e)), p) == e, enc_eocd(e).len() == 22 + e.comment.len()
{
    broadcast use group_le_len;
    let w = enc_eocd(e);
    let d = put(b, p, w);
    lemma_le32_inv(SIG_EOCD); lemma_le16_inv(e.disk); lemma_le16_inv(e.cd_disk); lemma_le16_inv(e.n_this); lemma_le16_inv(e.n_total);
    lemma_le32_inv(e.cd_size); lemma_le32_inv(e.cd_off); lemma_le16_inv(e.comment.len() as u16);
    assert(w.len() == 22 + e.comment.len());
    lemma_at_put(b, p, w, 0, 4); assert(w.subrange(0, 4) =~= le32(SIG_EOCD));
    lemma_at_put(b, p, w, 4, 2); assert(w.subrange(4, 6) =~= le16(e.disk));
    lemma_at_put(b, p, w, 6, 2); assert(w.subrange(6, 8) =~= le16(e.cd_disk));
    lemma_at_put(b, p, w, 8, 2); assert(w.subrange(8, 10) =~= le16(e.n_this));
    lemma_at_put(b, p, w, 10, 2); assert(w.subrange(10, 12) =~= le16(e.n_total));
    lemma_at_put(b, p, w, 12, 4); assert(w.subrange(12, 16) =~= le32(e.cd_size));
    lemma_at_put(b, p, w, 16, 4); assert(w.subrange(16, 20) =~= le32(e.cd_off));
    lemma_at_put(b, p, w, 20, 2); assert(w.subrange(20, 22) =~= le16(e.comment.len() as u16));
    assert(e.comment.len() as u16 as int == e.comment.len());
    lemma_at_put(b, p, w, 22, e.comment.len() as int); assert(w.subrange(22, 22 + e.comment.len() as int) =~= e.comment);
    lemma_at_put(b, p, w, 0, 22);
    lemma_at_put(b, p, w, 0, 22 + e.comment.len() as int);
    assert(dec_eocd(d, p).comment =~= e.comment);
}
// @props: C01 C02 C08 -- dec_z64loc(enc_z64loc(l)) == l
pub proof fn lemma_z64loc_roundtrip(b: Seq<u8>, p: int, l: Z64Loc)
    requires 0 <= p
    ensures z64loc_at(put(b, p, enc_z64loc(l)), p), dec_z64loc(put(b, p, enc_z64loc(l)), p) == l, enc_z64loc(l).len() == 20
{
    broadcast use group_le_len;
    let w = enc_z64loc(l);
    lemma_le32_inv(SIG_Z64_LOC); lemma_le32_inv(l.cd_disk); lemma_le64_inv(l.z64_off); lemma_le32_inv(l.n_disks);
    assert(w.len() == 20);
    lemma_at_put(b, p, w, 0, 4); assert(w.subrange(0, 4) =~= le32(SIG_Z64_LOC));
    lemma_at_put(b, p, w, 4, 4); assert(w.subrange(4, 8) =~= le32(l.cd_disk));
    lemma_at_put(b, p, w, 8, 8); assert(w.subrange(8, 16) =~= le64(l.z64_off));
    lemma_at_put(b, p, w, 16, 4); assert(w.subrange(16, 20) =~= le32(l.n_disks));
    lemma_at_put(b, p, w, 0, 20);
}
// @props: C01 C02 C08 -- dec_z64eocd(enc_z64eocd(z)) == z
pub proof fn lemma_z64eocd_roundtrip(b: Seq<u8>, p: int, z: Z64Eocd)
    requires 0 <= p
    ensures z64eocd_at(put(b, p, enc_z64eocd(z)), p), dec_z64eocd(put(b, p, enc_z64eocd(z)), p) == z, enc_z64eocd(z).len() == 56
{
    broadcast use group_le_len;
    let w = enc_z64eocd(z);
    lemma_le32_inv(SIG_Z64_EOCD); lemma_le64_inv(44); lemma_le16_inv(z.made_by); lemma_le16_inv(z.needed); lemma_le32_inv(z.disk); lemma_le32_inv(z.cd_disk);
    lemma_le64_inv(z.n_this); lemma_le64_inv(z.n_total); lemma_le64_inv(z.cd_size); lemma_le64_inv(z.cd_off);
    assert(w.len() == 56);
    lemma_at_put(b, p, w, 0, 4); assert(w.subrange(0, 4) =~= le32(SIG_Z64_EOCD));
    lemma_at_put(b, p, w, 12, 2); assert(w.subrange(12, 14) =~= le16(z.made_by));
    lemma_at_put(b, p, w, 14, 2); assert(w.subrange(14, 16) =~= le16(z.needed));
    lemma_at_put(b, p, w, 16, 4); assert(w.subrange(16, 20) =~= le32(z.disk));
    lemma_at_put(b, p, w, 20, 4); assert(w.subrange(20, 24) =~= le32(z.cd_disk));
    lemma_at_put(b, p, w, 24, 8); assert(w.subrange(24, 32) =~= le64(z.n_this));
    lemma_at_put(b, p, w, 32, 8); assert(w.subrange(32, 40) =~= le64(z.n_total));
    lemma_at_put(b, p, w, 40, 8); assert(w.subrange(40, 48) =~= le64(z.cd_size));
    lemma_at_put(b, p, w, 48, 8); assert(w.subrange(48, 56) =~= le64(z.cd_off));
    lemma_at_put(b, p, w, 0, 56);
}
