// ===========================================================================
// APPNOTE 4.5.1/4.5.2: the extra field is a sequence of records
//     header id  u16 LE | data size  u16 LE | `size` bytes of data
// that tile the field exactly.  What a *caller* may put there (property C12/C17 text): no record with the
// ZIP64 id 0x0001, none with an id <= 31, none with an id of the reserved table; the whole field must fit the
// 16-bit length field of the headers (APPNOTE 4.4.11).
// Written from APPNOTE and the property text; shares nothing with validate_extra_data.
// ===========================================================================
// APPNOTE 4.5.2 (PKWARE mappings) and 4.6.1 (third-party mappings), transcribed from the document
pub open spec fn appnote_mapped_id(k: u16) -> bool {
    // 4.5.2
    k == 0x0001 || k == 0x0007 || k == 0x0008 || k == 0x0009 || k == 0x000a || k == 0x000c || k == 0x000d
    || k == 0x000e || k == 0x000f || k == 0x0014 || k == 0x0015 || k == 0x0016 || k == 0x0017 || k == 0x0018
    || k == 0x0019 || k == 0x0020 || k == 0x0021 || k == 0x0022 || k == 0x0023 || k == 0x0065 || k == 0x0066
    || k == 0x4690
    // 4.6.1
    || k == 0x07c8 || k == 0x2605 || k == 0x2705 || k == 0x2805 || k == 0x334d || k == 0x4341 || k == 0x4453
    || k == 0x4704 || k == 0x470f || k == 0x4b46 || k == 0x4c41 || k == 0x4d49 || k == 0x4f4c || k == 0x5356
    || k == 0x5455 || k == 0x554e || k == 0x5855 || k == 0x6375 || k == 0x6542 || k == 0x7075 || k == 0x756e
    || k == 0x7855 || k == 0xa11e || k == 0xa220 || k == 0xfd4a || k == 0x9901 || k == 0x9902
}
// the same list as a sequence, to compare the crate's own table against (order as in APPNOTE)
pub open spec fn appnote_id_list() -> Seq<u16> {
    seq![
        0x0001u16, 0x0007u16, 0x0008u16, 0x0009u16, 0x000au16, 0x000cu16, 0x000du16, 0x000eu16,
        0x000fu16, 0x0014u16, 0x0015u16, 0x0016u16, 0x0017u16, 0x0018u16, 0x0019u16, 0x0020u16,
        0x0021u16, 0x0022u16, 0x0023u16, 0x0065u16, 0x0066u16, 0x4690u16, 0x07c8u16, 0x2605u16,
        0x2705u16, 0x2805u16, 0x334du16, 0x4341u16, 0x4453u16, 0x4704u16, 0x470fu16, 0x4b46u16,
        0x4c41u16, 0x4d49u16, 0x4f4cu16, 0x5356u16, 0x5455u16, 0x554eu16, 0x5855u16, 0x6375u16,
        0x6542u16, 0x7075u16, 0x756eu16, 0x7855u16, 0xa11eu16, 0xa220u16, 0xfd4au16, 0x9901u16,
        0x9902u16,
    ]
}
// the crate's reserved table (the const is cut out of src/write.rs on every run) lists exactly the APPNOTE ids;
// validate_extra_data asserts this at its use of the table, so a changed table fails there (checked, not assumed)
pub open spec fn reserved_table_is_appnote_list() -> bool { EXTRA_FIELD_MAPPING@ =~= appnote_id_list() }
pub open spec fn in_reserved_table(k: u16) -> bool {
    exists|i: int| 0 <= i < EXTRA_FIELD_MAPPING@.len() && #[trigger] EXTRA_FIELD_MAPPING@[i] == k
}
// @props: C12 C17 -- the reserved-ID table is the APPNOTE list
pub proof fn lemma_reserved_table_is_appnote(k: u16)
    requires reserved_table_is_appnote_list()
    ensures in_reserved_table(k) <==> appnote_mapped_id(k)
{
    let l = appnote_id_list();
    assert(l.len() == 49);
    if appnote_mapped_id(k) {
        if k == 0x0001 { assert(l[0] == k); }
        if k == 0x0007 { assert(l[1] == k); }
        if k == 0x0008 { assert(l[2] == k); }
        if k == 0x0009 { assert(l[3] == k); }
        if k == 0x000a { assert(l[4] == k); }
        if k == 0x000c { assert(l[5] == k); }
        if k == 0x000d { assert(l[6] == k); }
        if k == 0x000e { assert(l[7] == k); }
        if k == 0x000f { assert(l[8] == k); }
        if k == 0x0014 { assert(l[9] == k); }
        if k == 0x0015 { assert(l[10] == k); }
        if k == 0x0016 { assert(l[11] == k); }
        if k == 0x0017 { assert(l[12] == k); }
        if k == 0x0018 { assert(l[13] == k); }
        if k == 0x0019 { assert(l[14] == k); }
        if k == 0x0020 { assert(l[15] == k); }
        if k == 0x0021 { assert(l[16] == k); }
        if k == 0x0022 { assert(l[17] == k); }
        if k == 0x0023 { assert(l[18] == k); }
        if k == 0x0065 { assert(l[19] == k); }
        if k == 0x0066 { assert(l[20] == k); }
        if k == 0x4690 { assert(l[21] == k); }
        if k == 0x07c8 { assert(l[22] == k); }
        if k == 0x2605 { assert(l[23] == k); }
        if k == 0x2705 { assert(l[24] == k); }
        if k == 0x2805 { assert(l[25] == k); }
        if k == 0x334d { assert(l[26] == k); }
        if k == 0x4341 { assert(l[27] == k); }
        if k == 0x4453 { assert(l[28] == k); }
        if k == 0x4704 { assert(l[29] == k); }
        if k == 0x470f { assert(l[30] == k); }
        if k == 0x4b46 { assert(l[31] == k); }
        if k == 0x4c41 { assert(l[32] == k); }
        if k == 0x4d49 { assert(l[33] == k); }
        if k == 0x4f4c { assert(l[34] == k); }
        if k == 0x5356 { assert(l[35] == k); }
        if k == 0x5455 { assert(l[36] == k); }
        if k == 0x554e { assert(l[37] == k); }
        if k == 0x5855 { assert(l[38] == k); }
        if k == 0x6375 { assert(l[39] == k); }
        if k == 0x6542 { assert(l[40] == k); }
        if k == 0x7075 { assert(l[41] == k); }
        if k == 0x756e { assert(l[42] == k); }
        if k == 0x7855 { assert(l[43] == k); }
        if k == 0xa11e { assert(l[44] == k); }
        if k == 0xa220 { assert(l[45] == k); }
        if k == 0xfd4a { assert(l[46] == k); }
        if k == 0x9901 { assert(l[47] == k); }
        if k == 0x9902 { assert(l[48] == k); }
    }
}
pub open spec fn forbidden_id(k: u16) -> bool {
    k == 0x0001 || k <= 31 || appnote_mapped_id(k)
}
pub open spec fn rec_id(d: Seq<u8>) -> u16 { de16(d.subrange(0, 2)) }
pub open spec fn rec_size(d: Seq<u8>) -> int { de16(d.subrange(2, 4)) as int }
// records tile `d` exactly and none carries a forbidden id
pub open spec fn extra_records_ok(d: Seq<u8>) -> bool
    decreases d.len()
{
    if d.len() == 0 { true }
    else if d.len() < 4 { false }
    else {
        !forbidden_id(rec_id(d))
        && 4 + rec_size(d) <= d.len()
        && extra_records_ok(d.subrange(4 + rec_size(d), d.len() as int))
    }
}
pub open spec fn extra_ok(d: Seq<u8>) -> bool {
    d.len() <= 0xFFFF && extra_records_ok(d)
}
