// ===========================================================================
// APPNOTE 4.5.1/4.5.2: the extra field is a sequence of records
//     header id  u16 LE | data size  u16 LE | `size` bytes of data
// that tile the field exactly.  What a *caller* may put there (property C12/C17 text): no record with the
// ZIP64 id 0x0001, none with an id <= 31, none with an id of the reserved table; the whole field must fit the
// 16-bit length field of the headers (APPNOTE 4.4.11).
// Written from APPNOTE and the property text; shares nothing with validate_extra_data.
// ===========================================================================
// APPNOTE 4.5.2 (PKWARE mappings) and 4.6.1 (third-party mappings), transcribed from the document
pub open spec fn appnote_mapped_id(k: u16) -> bool {
    // 4.5.2
    k == 0x0001 || k == 0x0007 || k == 0x0008 || k == 0x0009 || k == 0x000a || k == 0x000c || k == 0x000d
    || k == 0x000e || k == 0x000f || k == 0x0014 || k == 0x0015 || k == 0x0016 || k == 0x0017 || k == 0x0018
    || k == 0x0019 || k == 0x0020 || k == 0x0021 || k == 0x0022 || k == 0x0023 || k == 0x0065 || k == 0x0066
    || k == 0x4690
    // 4.6.1
    || k == 0x07c8 || k == 0x2605 || k == 0x2705 || k == 0x2805 || k == 0x334d || k == 0x4341 || k == 0x4453
    || k == 0x4704 || k == 0x470f || k == 0x4b46 || k == 0x4c41 || k == 0x4d49 || k == 0x4f4c || k == 0x5356
    || k == 0x5455 || k == 0x554e || k == 0x5855 || k == 0x6375 || k == 0x6542 || k == 0x7075 || k == 0x756e
    || k == 0x7855 || k == 0xa11e || k == 0xa220 || k == 0xfd4a || k == 0x9901 || k == 0x9902
}
// membership in the crate's own reserved table (the const is cut out of src/write.rs on every run)
pub open spec fn in_reserved_table(k: u16) -> bool {
    exists|i: int| 0 <= i < EXTRA_FIELD_MAPPING@.len() && #[trigger] EXTRA_FIELD_MAPPING@[i] == k
}
// the crate's table is exactly the APPNOTE list (checked, not assumed: fails if the table in src/write.rs changes)
pub proof fn lemma_reserved_table_is_appnote(k: u16)
    ensures in_reserved_table(k) <==> appnote_mapped_id(k)
{
    assert(EXTRA_FIELD_MAPPING@.len() == 49);
    if appnote_mapped_id(k) {
        if k == 0x0001 { assert(EXTRA_FIELD_MAPPING@[0] == k); }
        if k == 0x0007 { assert(EXTRA_FIELD_MAPPING@[1] == k); }
        if k == 0x0008 { assert(EXTRA_FIELD_MAPPING@[2] == k); }
        if k == 0x0009 { assert(EXTRA_FIELD_MAPPING@[3] == k); }
        if k == 0x000a { assert(EXTRA_FIELD_MAPPING@[4] == k); }
        if k == 0x000c { assert(EXTRA_FIELD_MAPPING@[5] == k); }
        if k == 0x000d { assert(EXTRA_FIELD_MAPPING@[6] == k); }
        if k == 0x000e { assert(EXTRA_FIELD_MAPPING@[7] == k); }
        if k == 0x000f { assert(EXTRA_FIELD_MAPPING@[8] == k); }
        if k == 0x0014 { assert(EXTRA_FIELD_MAPPING@[9] == k); }
        if k == 0x0015 { assert(EXTRA_FIELD_MAPPING@[10] == k); }
        if k == 0x0016 { assert(EXTRA_FIELD_MAPPING@[11] == k); }
        if k == 0x0017 { assert(EXTRA_FIELD_MAPPING@[12] == k); }
        if k == 0x0018 { assert(EXTRA_FIELD_MAPPING@[13] == k); }
        if k == 0x0019 { assert(EXTRA_FIELD_MAPPING@[14] == k); }
        if k == 0x0020 { assert(EXTRA_FIELD_MAPPING@[15] == k); }
        if k == 0x0021 { assert(EXTRA_FIELD_MAPPING@[16] == k); }
        if k == 0x0022 { assert(EXTRA_FIELD_MAPPING@[17] == k); }
        if k == 0x0023 { assert(EXTRA_FIELD_MAPPING@[18] == k); }
        if k == 0x0065 { assert(EXTRA_FIELD_MAPPING@[19] == k); }
        if k == 0x0066 { assert(EXTRA_FIELD_MAPPING@[20] == k); }
        if k == 0x4690 { assert(EXTRA_FIELD_MAPPING@[21] == k); }
        if k == 0x07c8 { assert(EXTRA_FIELD_MAPPING@[22] == k); }
        if k == 0x2605 { assert(EXTRA_FIELD_MAPPING@[23] == k); }
        if k == 0x2705 { assert(EXTRA_FIELD_MAPPING@[24] == k); }
        if k == 0x2805 { assert(EXTRA_FIELD_MAPPING@[25] == k); }
        if k == 0x334d { assert(EXTRA_FIELD_MAPPING@[26] == k); }
        if k == 0x4341 { assert(EXTRA_FIELD_MAPPING@[27] == k); }
        if k == 0x4453 { assert(EXTRA_FIELD_MAPPING@[28] == k); }
        if k == 0x4704 { assert(EXTRA_FIELD_MAPPING@[29] == k); }
        if k == 0x470f { assert(EXTRA_FIELD_MAPPING@[30] == k); }
        if k == 0x4b46 { assert(EXTRA_FIELD_MAPPING@[31] == k); }
        if k == 0x4c41 { assert(EXTRA_FIELD_MAPPING@[32] == k); }
        if k == 0x4d49 { assert(EXTRA_FIELD_MAPPING@[33] == k); }
        if k == 0x4f4c { assert(EXTRA_FIELD_MAPPING@[34] == k); }
        if k == 0x5356 { assert(EXTRA_FIELD_MAPPING@[35] == k); }
        if k == 0x5455 { assert(EXTRA_FIELD_MAPPING@[36] == k); }
        if k == 0x554e { assert(EXTRA_FIELD_MAPPING@[37] == k); }
        if k == 0x5855 { assert(EXTRA_FIELD_MAPPING@[38] == k); }
        if k == 0x6375 { assert(EXTRA_FIELD_MAPPING@[39] == k); }
        if k == 0x6542 { assert(EXTRA_FIELD_MAPPING@[40] == k); }
        if k == 0x7075 { assert(EXTRA_FIELD_MAPPING@[41] == k); }
        if k == 0x756e { assert(EXTRA_FIELD_MAPPING@[42] == k); }
        if k == 0x7855 { assert(EXTRA_FIELD_MAPPING@[43] == k); }
        if k == 0xa11e { assert(EXTRA_FIELD_MAPPING@[44] == k); }
        if k == 0xa220 { assert(EXTRA_FIELD_MAPPING@[45] == k); }
        if k == 0xfd4a { assert(EXTRA_FIELD_MAPPING@[46] == k); }
        if k == 0x9901 { assert(EXTRA_FIELD_MAPPING@[47] == k); }
        if k == 0x9902 { assert(EXTRA_FIELD_MAPPING@[48] == k); }
    }
}
pub open spec fn forbidden_id(k: u16) -> bool {
    k == 0x0001 || k <= 31 || appnote_mapped_id(k)
}
pub open spec fn rec_id(d: Seq<u8>) -> u16 { de16(d.subrange(0, 2)) }
pub open spec fn rec_size(d: Seq<u8>) -> int { de16(d.subrange(2, 4)) as int }
// records tile `d` exactly and none carries a forbidden id
pub open spec fn extra_records_ok(d: Seq<u8>) -> bool
    decreases d.len()
{
    if d.len() == 0 { true }
    else if d.len() < 4 { false }
    else {
        !forbidden_id(rec_id(d))
        && 4 + rec_size(d) <= d.len()
        && extra_records_ok(d.subrange(4 + rec_size(d), d.len() as int))
    }
}
pub open spec fn extra_ok(d: Seq<u8>) -> bool {
    d.len() <= 0xFFFF && extra_records_ok(d)
}
