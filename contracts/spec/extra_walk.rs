// ===========================================================================
// APPNOTE 4.5 extensible data fields: a sequence of (id u16, size u16, payload) records.
// 4.5.3 ZIP64 extended information (id 0x0001): one 8-byte value per header field that is
// saturated (0xFFFFFFFF), in the fixed order uncompressed, compressed, header offset.
// WinZip AES (id 0x9901, size 7): vendor version u16, vendor id "AE", strength u8, real method u16.
// ===========================================================================
pub struct XState { pub usz: u64, pub csz: u64, pub hs: u64, pub large: bool,
                    pub aes: Option<(AesMode, AesVendorVersion)>, pub method: CompressionMethod }
pub open spec fn xkind(x: Seq<u8>, pos: int) -> u16 { de16(at(x, pos, 2)) }
pub open spec fn xlen(x: Seq<u8>, pos: int) -> int { de16(at(x, pos + 2, 2)) as int }
pub open spec fn z64_need(st: XState) -> int {
    (if st.usz == U32MAX { 1int } else { 0 }) + (if st.csz == U32MAX { 1int } else { 0 }) + (if st.hs == U32MAX { 1int } else { 0 })
}
pub open spec fn z64_apply(x: Seq<u8>, p: int, st: XState) -> XState {
    let p1 = if st.usz == U32MAX { p + 8 } else { p };
    let p2 = if st.csz == U32MAX { p1 + 8 } else { p1 };
    XState {
        usz: if st.usz == U32MAX { de64(at(x, p, 8)) } else { st.usz },
        csz: if st.csz == U32MAX { de64(at(x, p1, 8)) } else { st.csz },
        hs: if st.hs == U32MAX { de64(at(x, p2, 8)) } else { st.hs },
        large: st.large || st.usz == U32MAX || st.csz == U32MAX,
        aes: st.aes, method: st.method,
    }
}
pub open spec fn method_of_code(v: u16) -> CompressionMethod {
    if v == 0 { CompressionMethod::Stored } else if v == 8 { CompressionMethod::Deflated } else if v == 12 { CompressionMethod::Bzip2 }
    else if v == 93 { CompressionMethod::Zstd } else if v == 99 { CompressionMethod::Aes } else { CompressionMethod::Unsupported(v) }
}
pub open spec fn aes_apply(x: Seq<u8>, p: int, st: XState) -> Option<XState> {
    let ver = de16(at(x, p, 2));
    let vendor = de16(at(x, p + 2, 2));
    let strength = x[p + 4];
    let m = de16(at(x, p + 5, 2));
    if vendor != 0x4541 || (ver != 1 && ver != 2) || (strength != 1 && strength != 2 && strength != 3) { None } else {
        let v = if ver == 1 { AesVendorVersion::Ae1 } else { AesVendorVersion::Ae2 };
        let s = if strength == 1 { AesMode::Aes128 } else if strength == 2 { AesMode::Aes192 } else { AesMode::Aes256 };
        Some(XState { usz: st.usz, csz: st.csz, hs: st.hs, large: st.large, aes: Some((s, v)), method: method_of_code(m) })
    }
}
// records tile the field exactly and every ZIP64 record is long enough for the values it must carry
pub open spec fn xwf(x: Seq<u8>, pos: int, st: XState) -> bool
    decreases x.len() - pos
{
    if pos >= x.len() { pos == x.len() } else {
        inb(x, pos, 4) && pos + 4 + xlen(x, pos) <= x.len()
        && (xkind(x, pos) == 0x0001 ==> 8 * z64_need(st) <= xlen(x, pos))
        && (if xkind(x, pos) == 0x0001 { xwf(x, pos + 4 + xlen(x, pos), z64_apply(x, pos + 4, st)) }
            else if xkind(x, pos) == 0x9901 { xlen(x, pos) != 7 || aes_apply(x, pos + 4, st) is None
                                              || xwf(x, pos + 4 + xlen(x, pos), aes_apply(x, pos + 4, st).unwrap()) }
            else { xwf(x, pos + 4 + xlen(x, pos), st) })
    }
}
// the values an APPNOTE reader ends up with; None = the AES record is invalid/unsupported
pub open spec fn xwalk(x: Seq<u8>, pos: int, st: XState) -> Option<XState>
    decreases x.len() - pos
{
    if pos >= x.len() || !inb(x, pos, 4) || pos + 4 + xlen(x, pos) > x.len() { Some(st) } else {
        let next = pos + 4 + xlen(x, pos);
        if xkind(x, pos) == 0x0001 { xwalk(x, next, z64_apply(x, pos + 4, st)) }
        else if xkind(x, pos) == 0x9901 {
            if xlen(x, pos) != 7 { None } else {
                match aes_apply(x, pos + 4, st) { None => None, Some(s) => xwalk(x, next, s) }
            }
        } else { xwalk(x, next, st) }
    }
}

// ---- APPNOTE 4.5.3: a header carries at most ONE ZIP64 extended information record.  When an existing directory is
// re-emitted (new_append + finalize) that record is regenerated from the entry's values, so the copy that was read must go.
// end of the record that starts at `pos` (a record whose declared size overruns the field extends to its end)
pub open spec fn xend(x: Seq<u8>, pos: int) -> int {
    if xlen(x, pos) > x.len() - pos - 4 { x.len() as int } else { pos + 4 + xlen(x, pos) }
}
// the records of x from `pos` on, in order, except those with the ZIP64 id; fewer than 4 trailing bytes are kept as they are
pub open spec fn strip_z64(x: Seq<u8>, pos: int) -> Seq<u8>
    decreases x.len() - pos
{
    if pos < 0 || pos > x.len() { Seq::<u8>::empty() }
    else if x.len() - pos < 4 { x.subrange(pos, x.len() as int) }
    else {
        (if xkind(x, pos) != 0x0001 { x.subrange(pos, xend(x, pos)) } else { Seq::<u8>::empty() }) + strip_z64(x, xend(x, pos))
    }
}
// does a complete record with the ZIP64 id start at a record boundary at or after `pos`?
pub open spec fn has_z64(x: Seq<u8>, pos: int) -> bool
    decreases x.len() - pos
{
    if pos < 0 || x.len() - pos < 4 || xlen(x, pos) > x.len() - pos - 4 { false }
    else { xkind(x, pos) == 0x0001 || has_z64(x, pos + 4 + xlen(x, pos)) }
}
