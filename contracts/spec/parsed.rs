// ---- what the reader must report for a central directory header (C03, C01, C19), over the APPNOTE decode
pub open spec fn system_of_code(b: u8) -> System { if b == 0 { System::Dos } else if b == 3 { System::Unix } else { System::Unknown } }
pub open spec fn msdos_dt(datepart: u16, timepart: u16) -> DateTime {
    DateTime {
        year: (((datepart & 0b1111111000000000) >> 9) + 1980) as u16,
        month: ((datepart & 0b0000000111100000) >> 5) as u8,
        day: (datepart & 0b0000000000011111) as u8,
        hour: ((timepart & 0b1111100000000000) >> 11) as u8,
        minute: ((timepart & 0b0000011111100000) >> 5) as u8,
        second: ((timepart & 0b0000000000011111) << 1) as u8,
    }
}
pub open spec fn xstate(f: ZipFileData) -> XState {
    XState { usz: f.uncompressed_size, csz: f.compressed_size, hs: f.header_start, large: f.large_file, aes: f.aes_mode, method: f.compression_method }
}
// everything parse_extra_field must leave alone
pub open spec fn same_but_x(a: ZipFileData, b: ZipFileData) -> bool {
    a.system == b.system && a.version_made_by == b.version_made_by && a.encrypted == b.encrypted
    && a.using_data_descriptor == b.using_data_descriptor && a.compression_level == b.compression_level
    && a.last_modified_time == b.last_modified_time && a.crc32 == b.crc32 && a.file_name == b.file_name
    && a.file_name_raw == b.file_name_raw && a.extra_field == b.extra_field && a.file_comment == b.file_comment
    && a.central_header_start == b.central_header_start && a.data_start == b.data_start
    && a.external_attributes == b.external_attributes
}
pub open spec fn decode_text(flags: u16, raw: Seq<u8>) -> Seq<char> {
    if flags & (1u16 << 11) != 0 { utf8_lossy(raw) } else { cp437(raw) }
}
pub open spec fn cdh_body_at(d: Seq<u8>, p: int) -> bool { inb(d, p + 4, 42) && inb(d, p + 4, cdh_len(d, p) - 4) }
pub open spec fn xstate0(h: Cdh) -> XState {
    XState { usz: h.usize32 as u64, csz: h.csize32 as u64, hs: h.off32 as u64, large: false, aes: None, method: method_of_code(h.method) }
}
// everything but the stored extra field (new_append keeps the extra field without its ZIP64 records, see dir_parsed_append)
pub open spec fn parsed_matches_but_extra(f: ZipFileData, h: Cdh, chs: u64, aoff: u64) -> bool {
    &&& f.system == system_of_code((h.made_by >> 8) as u8)
    &&& f.version_made_by == h.made_by as u8
    &&& f.encrypted == (h.flags & 1 == 1)
    &&& f.using_data_descriptor == (h.flags & (1u16 << 3) != 0)
    &&& f.compression_level is None
    &&& f.last_modified_time == msdos_dt(h.date, h.time)
    &&& f.crc32 == h.crc
    &&& f.file_name_raw@ == h.name
    &&& f.file_name@ == decode_text(h.flags, h.name)
    &&& f.file_comment@ == decode_text(h.flags, h.comment)
    &&& f.external_attributes == h.eattr
    &&& f.central_header_start == chs
    &&& (xwf(h.extra_rest, 0, xstate0(h)) ==> (xwalk(h.extra_rest, 0, xstate0(h)) matches Some(st)
            && f.uncompressed_size == st.usz && f.compressed_size == st.csz && f.header_start == st.hs + aoff
            && f.large_file == st.large && f.aes_mode == st.aes && f.compression_method == st.method
            && !(st.method is Aes && st.aes is None)))
}
pub open spec fn parsed_matches(f: ZipFileData, h: Cdh, chs: u64, aoff: u64) -> bool {
    parsed_matches_but_extra(f, h, chs, aoff) && f.extra_field@ == h.extra_rest
}
