// ---- how many entries an archive has, as a function of its bytes (C03/C08/C13): what the end records say.
// the end record the reader uses: the last position that carries its signature (what find_and_parse is proved to return)
pub open spec fn is_eocd_pos(d: Seq<u8>, p: int) -> bool {
    eocd_at(d, p) && p + 22 <= d.len() && forall|q: int| p < q && q + 22 <= d.len() ==> !sig_at(d, q, SIG_EOCD)
}
// the ZIP64 end record a locator leads to: the first position at or after `from` that carries its signature
pub open spec fn is_first_z64_rec(d: Seq<u8>, from: int, p: int) -> bool {
    from <= p && sig_at(d, p, SIG_Z64_EOCD) && forall|q: int| from <= q < p ==> !sig_at(d, q, SIG_Z64_EOCD)
}
pub open spec fn first_z64_rec(d: Seq<u8>, from: int) -> int { choose|p: int| is_first_z64_rec(d, from, p) }
// the number of entries: the 64-bit count of the ZIP64 end record when a locator stands in front of the end record at
// `cde`, else the count of the end record itself (never a truncation of either)
pub open spec fn dir_count(d: Seq<u8>, cde: int) -> int {
    let lp = cde - 20;
    if lp >= 0 && z64loc_at(d, lp) { dec_z64eocd(d, first_z64_rec(d, dec_z64loc(d, lp).z64_off as int)).n_total as int }
    else { dec_eocd(d, cde).n_this as int }
}
pub proof fn lemma_first_z64_rec_unique(d: Seq<u8>, from: int, p: int)
    requires is_first_z64_rec(d, from, p)
    ensures first_z64_rec(d, from) == p
{
    let c = first_z64_rec(d, from);
    assert(is_first_z64_rec(d, from, c));
    if c < p { assert(!sig_at(d, c, SIG_Z64_EOCD)); }
    if p < c { assert(!sig_at(d, p, SIG_Z64_EOCD)); }
}
pub proof fn lemma_eocd_pos_unique(d: Seq<u8>, p1: int, p2: int)
    requires is_eocd_pos(d, p1), is_eocd_pos(d, p2)
    ensures p1 == p2
{
    if p1 < p2 { assert(!sig_at(d, p2, SIG_EOCD)); }
    if p2 < p1 { assert(!sig_at(d, p1, SIG_EOCD)); }
}
// every entry the end records count is there: stated for ZipArchive::new and ZipWriter::new_append
pub open spec fn lists_every_counted_entry(d: Seq<u8>, n: int) -> bool {
    exists|cde: int| #[trigger] is_eocd_pos(d, cde) && n == dir_count(d, cde)
}
// APPNOTE 4.4.1.4: a field of the end record that cannot hold its value is set to all ones and the value is in the ZIP64 record;
// an end record without any such field describes its directory by itself
pub open spec fn eocd_saturated(e: Eocd) -> bool {
    e.disk == 0xFFFF || e.cd_disk == 0xFFFF || e.n_this == 0xFFFF || e.n_total == 0xFFFF || e.cd_size == 0xFFFF_FFFFu32 || e.cd_off == 0xFFFF_FFFFu32
}
