// ---- lemmas about put / at (proved, not assumed)
pub broadcast proof fn lemma_put_put(b: Seq<u8>, p: int, w1: Seq<u8>, q: int, w2: Seq<u8>)
    requires 0 <= p, q == p + w1.len()
    ensures #[trigger] put(put(b, p, w1), q, w2) == put(b, p, w1 + w2)
{
    reveal(put);
    if w1.len() == 0 { assert(w1 + w2 =~= w2); }
    if w2.len() == 0 { assert(w1 + w2 =~= w1); }
    assert(put(put(b, p, w1), q, w2) =~= put(b, p, w1 + w2));
}
pub broadcast proof fn lemma_put_len(b: Seq<u8>, p: int, w: Seq<u8>)
    requires 0 <= p
    ensures (#[trigger] put(b, p, w)).len() == if w.len() == 0 || b.len() > p + w.len() { b.len() as int } else { p + w.len() }
{ reveal(put); }
// reading back what was written
pub proof fn lemma_at_put(b: Seq<u8>, p: int, w: Seq<u8>, k: int, n: int)
    requires 0 <= p, 0 <= k, 0 <= n, k + n <= w.len(), w.len() > 0
    ensures at(put(b, p, w), p + k, n) == w.subrange(k, k + n), inb(put(b, p, w), p + k, n)
{
    reveal(put);
    assert(at(put(b, p, w), p + k, n) =~= w.subrange(k, k + n));
}
// bytes outside the written window are untouched
pub proof fn lemma_put_frame(b: Seq<u8>, p: int, w: Seq<u8>, i: int)
    requires 0 <= p, 0 <= i < b.len(), i < p || i >= p + w.len()
    ensures put(b, p, w)[i] == b[i]
{ reveal(put); }
pub proof fn lemma_put_empty(b: Seq<u8>, p: int)
    ensures put(b, p, Seq::<u8>::empty()) == b
{
    reveal(put);
    assert(put(b, p, Seq::<u8>::empty()) =~= b);
}

// linear collapse of a chain of writes that started at (b0, p0)
pub proof fn lemma_put_chain(b0: Seq<u8>, p0: int)
    requires 0 <= p0
    ensures forall|acc: Seq<u8>, q: int, w: Seq<u8>| q == p0 + acc.len() ==> #[trigger] put(put(b0, p0, acc), q, w) == put(b0, p0, acc + w)
{
    assert forall|acc: Seq<u8>, q: int, w: Seq<u8>| q == p0 + acc.len() implies #[trigger] put(put(b0, p0, acc), q, w) == put(b0, p0, acc + w) by {
        lemma_put_put(b0, p0, acc, q, w);
    }
}
pub proof fn lemma_put_empty_any(b: Seq<u8>, p: int)
    ensures put(b, p, Seq::<u8>::empty()) == b
{ lemma_put_empty(b, p); }

pub proof fn lemma_add_empty()
    ensures forall|s: Seq<u8>| #[trigger] (s + Seq::<u8>::empty()) == s
{
    assert forall|s: Seq<u8>| #[trigger] (s + Seq::<u8>::empty()) == s by { assert(s + Seq::<u8>::empty() =~= s); }
}

// a later write at or above position q + n leaves the window [q, q+n) alone
pub proof fn lemma_at_below(b: Seq<u8>, p: int, w: Seq<u8>, q: int, n: int)
    requires 0 <= q, 0 <= n, q + n <= p, q + n <= b.len()
    ensures at(put(b, p, w), q, n) == at(b, q, n), inb(put(b, p, w), q, n)
{
    reveal(put);
    assert(at(put(b, p, w), q, n) =~= at(b, q, n));
}
// two consecutive all-or-error writes compose into one (used by the write_all / io::copy transcriptions)
pub proof fn lemma_wr_n_compose<T: Dev>(a: &T, b: &T, c: &T, w1: Seq<u8>, w2: Seq<u8>)
    requires a.g_dev(), 0 <= a.g_pos(), wr_n(a, b, true, w1), wr_n(b, c, true, w2)
    ensures wr_n(a, c, true, w1 + w2)
{
    lemma_put_put(a.g_bytes(), a.g_pos(), w1, a.g_pos() + w1.len(), w2);
}
// a region that lies entirely above an overwrite (and inside the old content) is untouched by it
pub proof fn lemma_at_above(b: Seq<u8>, p: int, w: Seq<u8>, q: int, n: int)
    requires 0 <= p, p + w.len() <= q, 0 <= n, q + n <= b.len()
    ensures at(put(b, p, w), q, n) == at(b, q, n), inb(put(b, p, w), q, n)
{
    reveal(put);
    if w.len() > 0 {
        assert(put(b, p, w).len() == b.len());
        assert(at(put(b, p, w), q, n) =~= at(b, q, n));
    }
}
