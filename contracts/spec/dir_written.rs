// ===========================================================================
// The central directory as the WRITER lays it out (C01, C02, C13): one record per entry, back to back from the
// directory start, each the APPNOTE encoding of the entry's central header.  Needs appnote_headers.rs,
// zfd_views.rs and seqlemmas.rs.  Everything here is proved; there are no assumptions in this file.
// ===========================================================================
// length of the record written for f (does not depend on the version-needed value, which has latitude)
pub open spec fn cdh_rec_len(f: ZipFileData) -> int {
    (46 + utf8(f.file_name@).len() + z64c_of(f).len() + f.extra_field@.len()) as int
}
// offset of the j-th record when the records of `files` are laid out back to back from `cs`
pub open spec fn cdw_pos(files: Seq<ZipFileData>, cs: int, j: int) -> int
    decreases j
{ if j <= 0 { cs } else { cdw_pos(files, cs, j - 1) + cdh_rec_len(files[j - 1]) } }
// the window at pos holds the central header of f (with SOME admissible version-needed value), and its 16-bit
// length fields hold the true lengths
pub open spec fn cdh_rec_at(bytes: Seq<u8>, f: ZipFileData, pos: int) -> bool {
    &&& utf8(f.file_name@).len() <= 0xFFFF && z64c_of(f).len() + f.extra_field@.len() <= 0xFFFF
    &&& exists|nd: u16| needed_ok(f, nd) && (#[trigger] le16(nd)).len() == 2 && inb(bytes, pos, cdh_rec_len(f))
            && at(bytes, pos, cdh_rec_len(f)) == enc_cdh(cdh_of(f, nd))
}
// the first k entries of `files` have their records in `bytes`, in order, from cs
pub open spec fn dir_written(bytes: Seq<u8>, files: Seq<ZipFileData>, cs: int, k: int) -> bool {
    forall|j: int| 0 <= j < k ==> cdh_rec_at(bytes, files[j], #[trigger] cdw_pos(files, cs, j))
}

pub proof fn lemma_cdh_rec_len(f: ZipFileData, nd: u16)
    ensures enc_cdh(cdh_of(f, nd)).len() == cdh_rec_len(f)
{
    broadcast use group_le_len;
}
pub proof fn lemma_cdw_pos_mono(files: Seq<ZipFileData>, cs: int, j: int, k: int)
    requires 0 <= j <= k
    ensures cdw_pos(files, cs, j) <= cdw_pos(files, cs, k), cs <= cdw_pos(files, cs, j),
        j < k ==> cdw_pos(files, cs, j) + cdh_rec_len(files[j]) <= cdw_pos(files, cs, k),
    decreases k
{
    if j < k {
        lemma_cdw_pos_mono(files, cs, j, k - 1);
    } else if j > 0 {
        lemma_cdw_pos_mono(files, cs, j - 1, k - 1);
    }
}
// a write at or above the end of the first k records leaves them alone
pub proof fn lemma_dir_written_above(b: Seq<u8>, files: Seq<ZipFileData>, cs: int, k: int, p: int, w: Seq<u8>)
    requires 0 <= cs, 0 <= k, dir_written(b, files, cs, k), cdw_pos(files, cs, k) <= p
    ensures dir_written(put(b, p, w), files, cs, k)
{
    let b2 = put(b, p, w);
    assert forall|j: int| 0 <= j < k implies cdh_rec_at(b2, files[j], #[trigger] cdw_pos(files, cs, j)) by {
        let q = cdw_pos(files, cs, j);
        let f = files[j];
        lemma_cdw_pos_mono(files, cs, j, k);
        assert(cdh_rec_at(b, f, q));
        let nd = choose|nd: u16| needed_ok(f, nd) && (#[trigger] le16(nd)).len() == 2 && inb(b, q, cdh_rec_len(f))
            && at(b, q, cdh_rec_len(f)) == enc_cdh(cdh_of(f, nd));
        lemma_at_below(b, p, w, q, cdh_rec_len(f));
        assert(needed_ok(f, nd) && le16(nd).len() == 2 && inb(b2, q, cdh_rec_len(f)) && at(b2, q, cdh_rec_len(f)) == enc_cdh(cdh_of(f, nd)));
    }
}
// one more record, written where the previous ones end, extends the directory by one entry
pub proof fn lemma_dir_written_step(b: Seq<u8>, files: Seq<ZipFileData>, cs: int, i: int, nd: u16)
    requires 0 <= cs, 0 <= i < files.len(), dir_written(b, files, cs, i), needed_ok(files[i], nd),
        utf8(files[i].file_name@).len() <= 0xFFFF, z64c_of(files[i]).len() + files[i].extra_field@.len() <= 0xFFFF,
    ensures
        dir_written(put(b, cdw_pos(files, cs, i), enc_cdh(cdh_of(files[i], nd))), files, cs, i + 1),
        cdw_pos(files, cs, i + 1) == cdw_pos(files, cs, i) + enc_cdh(cdh_of(files[i], nd)).len(),
{
    broadcast use group_le_len;
    let p = cdw_pos(files, cs, i);
    let f = files[i];
    let w = enc_cdh(cdh_of(f, nd));
    let b2 = put(b, p, w);
    lemma_cdh_rec_len(f, nd);
    lemma_cdw_pos_mono(files, cs, i, i);
    lemma_dir_written_above(b, files, cs, i, p, w);
    lemma_at_put(b, p, w, 0, w.len() as int);
    assert(w.subrange(0, w.len() as int) =~= w);
    assert(needed_ok(f, nd) && le16(nd).len() == 2 && inb(b2, p, cdh_rec_len(f)) && at(b2, p, cdh_rec_len(f)) == enc_cdh(cdh_of(f, nd)));
    assert(cdh_rec_at(b2, f, p));
    assert forall|j: int| 0 <= j < i + 1 implies cdh_rec_at(b2, files[j], #[trigger] cdw_pos(files, cs, j)) by {
        if j < i { assert(dir_written(b2, files, cs, i)); }
    }
}
