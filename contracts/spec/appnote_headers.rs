// ===========================================================================
// APPNOTE 6.3.9 sections 4.3.7 (local file header), 4.3.12 (central directory
// header), 4.4.4 (general purpose flags), 4.4.6 (DOS date/time), 4.5.3 (ZIP64
// extended information extra field).  Written from the specification.
// ===========================================================================
pub const SIG_LFH: u32 = 0x04034b50;
pub const SIG_CDH: u32 = 0x02014b50;
pub const U32MAX: u64 = 0xFFFF_FFFF;

pub struct Lfh { pub needed: u16, pub flags: u16, pub method: u16, pub time: u16, pub date: u16, pub crc: u32,
                 pub csize32: u32, pub usize32: u32, pub name: Seq<u8>, pub extra: Seq<u8> }
pub open spec fn enc_lfh(h: Lfh) -> Seq<u8> {
    le32(SIG_LFH) + le16(h.needed) + le16(h.flags) + le16(h.method) + le16(h.time) + le16(h.date) + le32(h.crc)
        + le32(h.csize32) + le32(h.usize32) + le16(h.name.len() as u16) + le16(h.extra.len() as u16) + h.name + h.extra
}
pub open spec fn lfh_name_len(d: Seq<u8>, p: int) -> int { de16(at(d, p + 26, 2)) as int }
pub open spec fn lfh_extra_len(d: Seq<u8>, p: int) -> int { de16(at(d, p + 28, 2)) as int }
pub open spec fn lfh_at(d: Seq<u8>, p: int) -> bool {
    sig_at(d, p, SIG_LFH) && inb(d, p, 30) && inb(d, p, 30 + lfh_name_len(d, p) + lfh_extra_len(d, p))
}
pub open spec fn dec_lfh(d: Seq<u8>, p: int) -> Lfh {
    Lfh { needed: de16(at(d, p + 4, 2)), flags: de16(at(d, p + 6, 2)), method: de16(at(d, p + 8, 2)), time: de16(at(d, p + 10, 2)),
          date: de16(at(d, p + 12, 2)), crc: de32(at(d, p + 14, 4)), csize32: de32(at(d, p + 18, 4)), usize32: de32(at(d, p + 22, 4)),
          name: at(d, p + 30, lfh_name_len(d, p)), extra: at(d, p + 30 + lfh_name_len(d, p), lfh_extra_len(d, p)) }
}

pub struct Cdh { pub made_by: u16, pub needed: u16, pub flags: u16, pub method: u16, pub time: u16, pub date: u16, pub crc: u32,
                 pub csize32: u32, pub usize32: u32, pub disk: u16, pub iattr: u16, pub eattr: u32, pub off32: u32,
                 pub name: Seq<u8>, pub extra_z64: Seq<u8>, pub extra_rest: Seq<u8>, pub comment: Seq<u8> }
// the extra field is a sequence of records: [ZIP64 record] then the remaining records
pub open spec fn cdh_extra(h: Cdh) -> Seq<u8> { h.extra_z64 + h.extra_rest }
pub open spec fn enc_cdh(h: Cdh) -> Seq<u8> {
    le32(SIG_CDH) + le16(h.made_by) + le16(h.needed) + le16(h.flags) + le16(h.method) + le16(h.time) + le16(h.date) + le32(h.crc)
        + le32(h.csize32) + le32(h.usize32) + le16(h.name.len() as u16) + le16((h.extra_z64.len() + h.extra_rest.len()) as u16) + le16(h.comment.len() as u16)
        + le16(h.disk) + le16(h.iattr) + le32(h.eattr) + le32(h.off32) + h.name + h.extra_z64 + h.extra_rest + h.comment
}
pub open spec fn cdh_name_len(d: Seq<u8>, p: int) -> int { de16(at(d, p + 28, 2)) as int }
pub open spec fn cdh_extra_len(d: Seq<u8>, p: int) -> int { de16(at(d, p + 30, 2)) as int }
pub open spec fn cdh_comment_len(d: Seq<u8>, p: int) -> int { de16(at(d, p + 32, 2)) as int }
pub open spec fn cdh_len(d: Seq<u8>, p: int) -> int { 46 + cdh_name_len(d, p) + cdh_extra_len(d, p) + cdh_comment_len(d, p) }
pub open spec fn cdh_at(d: Seq<u8>, p: int) -> bool { sig_at(d, p, SIG_CDH) && inb(d, p, 46) && inb(d, p, cdh_len(d, p)) }
pub open spec fn dec_cdh(d: Seq<u8>, p: int) -> Cdh {
    Cdh { made_by: de16(at(d, p + 4, 2)), needed: de16(at(d, p + 6, 2)), flags: de16(at(d, p + 8, 2)), method: de16(at(d, p + 10, 2)),
          time: de16(at(d, p + 12, 2)), date: de16(at(d, p + 14, 2)), crc: de32(at(d, p + 16, 4)), csize32: de32(at(d, p + 20, 4)),
          usize32: de32(at(d, p + 24, 4)), disk: de16(at(d, p + 34, 2)), iattr: de16(at(d, p + 36, 2)), eattr: de32(at(d, p + 38, 4)),
          off32: de32(at(d, p + 42, 4)), name: at(d, p + 46, cdh_name_len(d, p)),
          extra_z64: Seq::<u8>::empty(), extra_rest: at(d, p + 46 + cdh_name_len(d, p), cdh_extra_len(d, p)),
          comment: at(d, p + 46 + cdh_name_len(d, p) + cdh_extra_len(d, p), cdh_comment_len(d, p)) }
}

// 4.5.3 ZIP64 extended information: local form carries BOTH sizes; central form carries
// exactly the values whose 32-bit header field is saturated, in the fixed order
pub open spec fn enc_z64_local(usz: u64, csz: u64) -> Seq<u8> { le16(0x0001) + le16(16) + le64(usz) + le64(csz) }
pub open spec fn opt64(inc: bool, v: u64) -> Seq<u8> { if inc { le64(v) } else { Seq::<u8>::empty() } }
pub open spec fn z64_count(iu: bool, ic: bool, ih: bool) -> int { (if iu { 1int } else { 0 }) + (if ic { 1int } else { 0 }) + (if ih { 1int } else { 0 }) }
pub open spec fn enc_z64_central(iu: bool, ic: bool, ih: bool, usz: u64, csz: u64, hs: u64) -> Seq<u8> {
    if !iu && !ic && !ih { Seq::<u8>::empty() } else {
        le16(0x0001) + le16((8 * z64_count(iu, ic, ih)) as u16) + opt64(iu, usz) + opt64(ic, csz) + opt64(ih, hs)
    }
}
pub open spec fn sat32(v: u64) -> u32 { if v >= U32MAX { 0xFFFF_FFFFu32 } else { v as u32 } }

// 4.4.6 MS-DOS date and time: spec/dos_datetime.rs (included next to this file)
