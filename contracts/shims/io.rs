// ===========================================================================
// TRUSTED BASE (DESIGN.md section 3.1): byte sources and sinks.
// Replaces std::io::{Read, Write, Seek, Error, SeekFrom} and byteorder's
// extension traits.  Everything marked external_body / uninterp here is an
// assumption and is counted by the assumption scan.
//
// A *device* (`dev()` true) is an object that behaves like a file or a
// Cursor.  Crate-defined adapters (Crc32Reader, ZipFile, ...) implement the
// same traits with `dev()` false and promise only what their own `ensures`
// say.  Generic code is verified for every implementor of the contract.
// ===========================================================================
global size_of usize == 8;   // cfg: x86_64
pub mod io {
    use vstd::prelude::*;
    #[derive(Debug)]
    pub struct Error { pub k: u8 }
    pub enum ErrorKind { Other, BrokenPipe, InvalidData, InvalidInput, UnexpectedEof, WriteZero }
    impl Error {
        #[verifier::external_body]
        pub fn new<M>(kind: ErrorKind, msg: M) -> (r: Error) { Error { k: 0 } }
    }
    pub type Result<T> = core::result::Result<T, Error>;
    pub enum SeekFrom { Start(u64), End(i64), Current(i64) }
    pub use super::{Read, Write, Seek, Cursor, Take, BufReader, DynRead, DynWrite};
}

pub struct LittleEndian;

// ---- little-endian encodings: defined, with proved inverses (bit_vector)
#[verifier::opaque]
pub open spec fn le16(v: u16) -> Seq<u8> { seq![(v & 0xff) as u8, ((v >> 8) & 0xff) as u8] }
#[verifier::opaque]
pub open spec fn le32(v: u32) -> Seq<u8> {
    seq![(v & 0xff) as u8, ((v >> 8) & 0xff) as u8, ((v >> 16) & 0xff) as u8, ((v >> 24) & 0xff) as u8]
}
#[verifier::opaque]
pub open spec fn le64(v: u64) -> Seq<u8> {
    seq![(v & 0xff) as u8, ((v >> 8) & 0xff) as u8, ((v >> 16) & 0xff) as u8, ((v >> 24) & 0xff) as u8,
         ((v >> 32) & 0xff) as u8, ((v >> 40) & 0xff) as u8, ((v >> 48) & 0xff) as u8, ((v >> 56) & 0xff) as u8]
}
#[verifier::opaque]
pub open spec fn de16(s: Seq<u8>) -> u16 { (s[0] as u16) | ((s[1] as u16) << 8) }
#[verifier::opaque]
pub open spec fn de32(s: Seq<u8>) -> u32 {
    (s[0] as u32) | ((s[1] as u32) << 8) | ((s[2] as u32) << 16) | ((s[3] as u32) << 24)
}
#[verifier::opaque]
pub open spec fn de64(s: Seq<u8>) -> u64 {
    (s[0] as u64) | ((s[1] as u64) << 8) | ((s[2] as u64) << 16) | ((s[3] as u64) << 24)
    | ((s[4] as u64) << 32) | ((s[5] as u64) << 40) | ((s[6] as u64) << 48) | ((s[7] as u64) << 56)
}
pub proof fn lemma_le16_inv(v: u16) ensures de16(le16(v)) == v, le16(v).len() == 2 {
    reveal(le16); reveal(de16);
    assert(((v & 0xff) as u8 as u16) | ((((v >> 8) & 0xff) as u8 as u16) << 8) == v) by(bit_vector);
}
pub proof fn lemma_le32_inv(v: u32) ensures de32(le32(v)) == v, le32(v).len() == 4 {
    reveal(le32); reveal(de32);
    assert(((v & 0xff) as u8 as u32) | ((((v >> 8) & 0xff) as u8 as u32) << 8)
        | ((((v >> 16) & 0xff) as u8 as u32) << 16) | ((((v >> 24) & 0xff) as u8 as u32) << 24) == v) by(bit_vector);
}
pub proof fn lemma_le64_inv(v: u64) ensures de64(le64(v)) == v, le64(v).len() == 8 {
    reveal(le64); reveal(de64);
    assert(((v & 0xff) as u8 as u64) | ((((v >> 8) & 0xff) as u8 as u64) << 8)
        | ((((v >> 16) & 0xff) as u8 as u64) << 16) | ((((v >> 24) & 0xff) as u8 as u64) << 24)
        | ((((v >> 32) & 0xff) as u8 as u64) << 32) | ((((v >> 40) & 0xff) as u8 as u64) << 40)
        | ((((v >> 48) & 0xff) as u8 as u64) << 48) | ((((v >> 56) & 0xff) as u8 as u64) << 56) == v) by(bit_vector);
}

// T7x: `u16::from_le_bytes(..)` (its parameter type `[u8; size_of::<Self>()]` carries an anonymous constant that an
// assume_specification cannot name).  TRUSTED (core): the little-endian decode of the two bytes
#[verifier::external_body]
pub fn shim_u16_from_le_bytes(b: [u8; 2]) -> (r: u16)
    ensures r == de16(b@)
{ u16::from_le_bytes(b) }

pub broadcast proof fn lemma_le16_len(v: u16) ensures (#[trigger] le16(v)).len() == 2 { reveal(le16); }
pub broadcast proof fn lemma_le32_len(v: u32) ensures (#[trigger] le32(v)).len() == 4 { reveal(le32); }
pub broadcast proof fn lemma_le64_len(v: u64) ensures (#[trigger] le64(v)).len() == 8 { reveal(le64); }
pub broadcast group group_le_len { lemma_le16_len, lemma_le32_len, lemma_le64_len }

// bytes [p, p+n) of d
pub open spec fn at(d: Seq<u8>, p: int, n: int) -> Seq<u8> { d.subrange(p, p + n) }
pub open spec fn inb(d: Seq<u8>, p: int, n: int) -> bool { 0 <= p && 0 <= n && p + n <= d.len() }

// overwrite/extend b at position p with w (a gap is zero filled, as for files and Cursor<Vec>);
// writing nothing changes nothing
#[verifier::opaque]
pub open spec fn put(b: Seq<u8>, p: int, w: Seq<u8>) -> Seq<u8> {
    if w.len() == 0 { b } else {
    Seq::new(if b.len() > p + w.len() { b.len() } else { (p + w.len()) as nat }, |i: int|
        if p <= i < p + w.len() { w[i - p] } else if i < b.len() { b[i] } else { 0u8 })
    }
}

pub const MAX_OFF: u64 = 0x7fff_ffff_ffff_ffff; // off_t: device lengths and positions fit i64

// ---------------------------------------------------------------------------
// Ghost state shared by the three I/O traits.  For a source `g_bytes()` is the
// (immutable) content; for a sink it is what has been written so far.
// `g_fault()` is monotone and is set by every device failure, which is what
// lets "an I/O error is never swallowed into a success" be a postcondition.
pub trait Dev {
    spec fn g_dev(&self) -> bool;
    spec fn g_bytes(&self) -> Seq<u8>;
    spec fn g_pos(&self) -> int;
    spec fn g_fault(&self) -> bool;
    // "calling read/write on this object cannot panic": true for devices and by default; an adapter that
    // can be in an unusable state (ZipFileReader::NoReader) overrides it, adapters over a generic inner
    // reader forward it.  `Read::read` requires it, so every call site has to establish it.
    open spec fn g_ready(&self) -> bool { true }
    // an adapter's own invariant that every Write operation on it preserves (for a sink wrapper: "the
    // device below is still usable"); true by default; MaybeEncrypted overrides it
    open spec fn g_inv(&self) -> bool { true }
}

// what every operation on a device preserves / guarantees, whatever its outcome
pub open spec fn dev_step<T: Dev + ?Sized>(a: &T, b: &T) -> bool {
    a.g_dev() ==> b.g_dev() && b.g_ready() && 0 <= b.g_pos() <= MAX_OFF && b.g_bytes().len() <= MAX_OFF
        && (a.g_fault() ==> b.g_fault())
}
// a read-side step: content is never changed by reading or seeking
pub open spec fn rd_step<T: Dev + ?Sized>(a: &T, b: &T) -> bool {
    dev_step(a, b) && (a.g_dev() ==> b.g_bytes() == a.g_bytes())
}
pub open spec fn dev_ok<T: Dev + ?Sized>(a: &T) -> bool {
    a.g_dev() && a.g_ready() && 0 <= a.g_pos() <= MAX_OFF && a.g_bytes().len() <= MAX_OFF
}

// Source.  Every call may fail; a failure says nothing about the position
// afterwards.  `read` may be short in any way it likes (but returns 0 only at
// end of data or for an empty buffer, as std documents).
pub trait Read: Dev {
    // what ONE read does to an adapter, in its own terms (default: nothing is said).  Adapters whose effect is known
    // override it (Take over a device: take_read; CryptoReader::Plaintext: its Take), so that a generic wrapper such as
    // Crc32Reader<R> can export "my read IS my inner reader's read" without knowing R.
    open spec fn g_read_rel(&self, after: &Self, buf_len: int, out: Seq<u8>, r: io::Result<usize>) -> bool { true }
    fn read(&mut self, buf: &mut [u8]) -> (r: io::Result<usize>)
        requires
            old(self).g_ready(),
        ensures
            old(self).g_read_rel(final(self), old(buf)@.len() as int, final(buf)@, r),
            final(buf)@.len() == old(buf)@.len(),
            r matches Ok(n) ==> n <= old(buf)@.len(),
            rd_step(old(self), final(self)),
            old(self).g_dev() ==> (r is Err ==> final(self).g_fault()),
            old(self).g_dev() ==> (r matches Ok(n) ==> {
                &&& final(self).g_fault() == old(self).g_fault()
                &&& final(self).g_pos() == old(self).g_pos() + n
                &&& (n > 0 ==> inb(old(self).g_bytes(), old(self).g_pos(), n as int)
                      && final(buf)@.subrange(0, n as int) == at(old(self).g_bytes(), old(self).g_pos(), n as int))
                &&& (n == 0 ==> (old(buf)@.len() == 0 || old(self).g_pos() >= old(self).g_bytes().len()))
            });

    // all-or-error; an error is a device fault or "not enough data"
    #[verifier::external_body]
    fn read_exact(&mut self, buf: &mut [u8]) -> (r: io::Result<()>)
        ensures
            final(buf)@.len() == old(buf)@.len(),
            rd_step(old(self), final(self)),
            old(self).g_dev() ==> (r is Err ==> final(self).g_fault()
                || !inb(old(self).g_bytes(), old(self).g_pos(), old(buf)@.len() as int)),
            old(self).g_dev() ==> (r is Ok ==> {
                &&& final(self).g_fault() == old(self).g_fault()
                &&& inb(old(self).g_bytes(), old(self).g_pos(), old(buf)@.len() as int)
                &&& final(self).g_pos() == old(self).g_pos() + old(buf)@.len()
                &&& final(buf)@ == at(old(self).g_bytes(), old(self).g_pos(), old(buf)@.len() as int)
            }),
    { unimplemented!() }
}

pub open spec fn rd_n<T: Dev + ?Sized>(a: &T, b: &T, ok: bool, n: int) -> bool {
    rd_step(a, b)
    && (a.g_dev() ==> (!ok ==> b.g_fault() || !inb(a.g_bytes(), a.g_pos(), n)))
    && (a.g_dev() ==> (ok ==> b.g_fault() == a.g_fault() && inb(a.g_bytes(), a.g_pos(), n) && b.g_pos() == a.g_pos() + n))
}

// byteorder::ReadBytesExt
pub trait ReadBytesExt: Read {
    #[verifier::external_body]
    fn read_u8(&mut self) -> (r: io::Result<u8>)
        ensures rd_n(old(self), final(self), r is Ok, 1),
            old(self).g_dev() ==> (r matches Ok(v) ==> v == old(self).g_bytes()[old(self).g_pos()]),
    { unimplemented!() }
    #[verifier::external_body]
    fn read_u16<B>(&mut self) -> (r: io::Result<u16>)
        ensures rd_n(old(self), final(self), r is Ok, 2),
            old(self).g_dev() ==> (r matches Ok(v) ==> v == de16(at(old(self).g_bytes(), old(self).g_pos(), 2))),
    { unimplemented!() }
    #[verifier::external_body]
    fn read_u32<B>(&mut self) -> (r: io::Result<u32>)
        ensures rd_n(old(self), final(self), r is Ok, 4),
            old(self).g_dev() ==> (r matches Ok(v) ==> v == de32(at(old(self).g_bytes(), old(self).g_pos(), 4))),
    { unimplemented!() }
    #[verifier::external_body]
    fn read_u64<B>(&mut self) -> (r: io::Result<u64>)
        ensures rd_n(old(self), final(self), r is Ok, 8),
            old(self).g_dev() ==> (r matches Ok(v) ==> v == de64(at(old(self).g_bytes(), old(self).g_pos(), 8))),
    { unimplemented!() }
}
impl<R: Read + ?Sized> ReadBytesExt for R {}

// Seeking.  Err is a device fault or an invalid (negative) target position.
pub open spec fn seek_target(p: io::SeekFrom, pos: int, len: int) -> int {
    match p {
        io::SeekFrom::Start(s) => s as int,
        io::SeekFrom::End(o) => len + o,
        io::SeekFrom::Current(o) => pos + o,
    }
}
pub trait Seek: Dev {
    fn seek(&mut self, p: io::SeekFrom) -> (r: io::Result<u64>)
        ensures
            rd_step(old(self), final(self)),
            old(self).g_dev() ==> (r is Err ==> final(self).g_fault()
                || seek_target(p, old(self).g_pos(), old(self).g_bytes().len() as int) < 0
                || seek_target(p, old(self).g_pos(), old(self).g_bytes().len() as int) > MAX_OFF),
            old(self).g_dev() ==> (r matches Ok(np) ==> final(self).g_fault() == old(self).g_fault()
                && np == final(self).g_pos()
                && final(self).g_pos() == seek_target(p, old(self).g_pos(), old(self).g_bytes().len() as int));
    #[verifier::external_body]
    fn stream_position(&mut self) -> (r: io::Result<u64>)
        ensures
            rd_step(old(self), final(self)),
            old(self).g_dev() ==> (r is Err ==> final(self).g_fault()),
            old(self).g_dev() ==> (r matches Ok(np) ==> final(self).g_fault() == old(self).g_fault()
                && np == final(self).g_pos() && final(self).g_pos() == old(self).g_pos()),
    { unimplemented!() }
}

// Sink.  `write` may accept any non-empty prefix; an error says nothing about
// what was written.
pub open spec fn wr_n<T: Dev + ?Sized>(a: &T, b: &T, ok: bool, w: Seq<u8>) -> bool {
    dev_step(a, b) && (a.g_inv() ==> b.g_inv())
    && (a.g_dev() ==> (!ok ==> b.g_fault()))
    && (a.g_dev() ==> (ok ==> b.g_fault() == a.g_fault() && b.g_pos() == a.g_pos() + w.len()
            && b.g_bytes() == put(a.g_bytes(), a.g_pos(), w)))
}
pub trait Write: Dev {
    fn write(&mut self, buf: &[u8]) -> (r: io::Result<usize>)
        requires
            old(self).g_ready(),
        ensures
            old(self).g_inv() ==> final(self).g_inv(),
            dev_step(old(self), final(self)),
            r matches Ok(n) ==> n <= buf@.len(),
            old(self).g_dev() ==> (r is Err ==> final(self).g_fault()),
            old(self).g_dev() ==> (r matches Ok(n) ==> (buf@.len() > 0 ==> n > 0)
                && wr_n(old(self), final(self), true, buf@.subrange(0, n as int)));
    fn flush(&mut self) -> (r: io::Result<()>)
        requires
            old(self).g_ready(),
        ensures
            old(self).g_inv() ==> final(self).g_inv(),
            dev_step(old(self), final(self)),
            old(self).g_dev() ==> (r is Err ==> final(self).g_fault()),
            old(self).g_dev() ==> (r is Ok ==> final(self).g_fault() == old(self).g_fault()
                && final(self).g_pos() == old(self).g_pos() && final(self).g_bytes() == old(self).g_bytes());
    #[verifier::external_body]
    fn write_all(&mut self, buf: &[u8]) -> (r: io::Result<()>)
        requires old(self).g_ready(),
        ensures wr_n(old(self), final(self), r is Ok, buf@),
    { unimplemented!() }
}
// byteorder::WriteBytesExt
pub trait WriteBytesExt: Write {
    #[verifier::external_body]
    fn write_u8(&mut self, v: u8) -> (r: io::Result<()>)
        requires old(self).g_ready(),
        ensures wr_n(old(self), final(self), r is Ok, seq![v]),
    { unimplemented!() }
    #[verifier::external_body]
    fn write_u16<B>(&mut self, v: u16) -> (r: io::Result<()>)
        requires old(self).g_ready(),
        ensures wr_n(old(self), final(self), r is Ok, le16(v)),
    { unimplemented!() }
    #[verifier::external_body]
    fn write_u32<B>(&mut self, v: u32) -> (r: io::Result<()>)
        requires old(self).g_ready(),
        ensures wr_n(old(self), final(self), r is Ok, le32(v)),
    { unimplemented!() }
    #[verifier::external_body]
    fn write_u64<B>(&mut self, v: u64) -> (r: io::Result<()>)
        requires old(self).g_ready(),
        ensures wr_n(old(self), final(self), r is Ok, le64(v)),
    { unimplemented!() }
}
impl<W: Write + ?Sized> WriteBytesExt for W {}

// io::Cursor over a byte vector: a device that never faults (TRUSTED: std::io::Cursor semantics)
pub struct Cursor<T> { pub inner: T, pub pos: u64 }
impl<T> Cursor<T> {
    pub fn new(inner: T) -> (r: Cursor<T>) ensures r.inner == inner, r.pos == 0 { Cursor { inner, pos: 0 } }
    pub fn position(&self) -> (r: u64) ensures r == self.pos { self.pos }
}
impl<'a> Dev for Cursor<&'a Vec<u8>> {
    open spec fn g_dev(&self) -> bool { true }
    open spec fn g_bytes(&self) -> Seq<u8> { self.inner@ }
    open spec fn g_pos(&self) -> int { self.pos as int }
    open spec fn g_fault(&self) -> bool { false }
}
impl<'a> Read for Cursor<&'a Vec<u8>> {
    #[verifier::external_body]
    fn read(&mut self, buf: &mut [u8]) -> (r: io::Result<usize>) { unimplemented!() }
}
impl<'a> Seek for Cursor<&'a Vec<u8>> {
    #[verifier::external_body]
    fn seek(&mut self, p: io::SeekFrom) -> (r: io::Result<u64>) { unimplemented!() }
}

// io::Take / io::BufReader (TRUSTED: std semantics)
pub struct Take<R> { pub inner: R, pub limit: u64 }
impl<R> Take<R> {
    pub fn into_inner(self) -> (r: R) ensures r == self.inner { self.inner }
    pub fn limit(&self) -> (r: u64) ensures r == self.limit { self.limit }
}
impl<R> Dev for Take<R> {
    open spec fn g_dev(&self) -> bool { false }
    open spec fn g_bytes(&self) -> Seq<u8> { Seq::empty() }
    open spec fn g_pos(&self) -> int { 0 }
    open spec fn g_fault(&self) -> bool { false }
}
// what one read through a Take over a device does
pub open spec fn take_read<R: Dev>(a_inner: R, a_limit: u64, b_inner: R, b_limit: u64, buf_len: int, out: Seq<u8>, ok: bool, n: int) -> bool {
    rd_step(&a_inner, &b_inner)
    && (ok ==> n <= buf_len && n <= a_limit && b_limit == a_limit - n)
    && (a_inner.g_dev() ==> (!ok ==> b_inner.g_fault()))
    && (a_inner.g_dev() ==> (ok ==> b_inner.g_fault() == a_inner.g_fault() && b_inner.g_pos() == a_inner.g_pos() + n
            && (n > 0 ==> inb(a_inner.g_bytes(), a_inner.g_pos(), n) && out.subrange(0, n) == at(a_inner.g_bytes(), a_inner.g_pos(), n))
            && (n == 0 ==> (buf_len == 0 || a_limit == 0 || a_inner.g_pos() >= a_inner.g_bytes().len()))))
}
impl<'a> Read for Take<DynRead<'a>> {
    open spec fn g_read_rel(&self, after: &Self, buf_len: int, out: Seq<u8>, r: io::Result<usize>) -> bool {
        take_read(self.inner, self.limit, after.inner, after.limit, buf_len, out, r is Ok, (if r is Ok { r->Ok_0 as int } else { 0 }))
    }
    #[verifier::external_body]
    fn read(&mut self, buf: &mut [u8]) -> (r: io::Result<usize>)
        ensures
            final(buf)@.len() == old(buf)@.len(),
            take_read(old(self).inner, old(self).limit, final(self).inner, final(self).limit, old(buf)@.len() as int, final(buf)@, r is Ok,
                      (if r is Ok { r->Ok_0 as int } else { 0 })),
    { unimplemented!() }
}
pub mod iox {
    // `reader.take(n)` on `&mut dyn Read` (std: Read::take)
    pub trait TakeExt: Sized { fn take(self, limit: u64) -> (r: super::Take<Self>) ensures r.limit == limit, r.inner == self; }
}
pub use iox::TakeExt;
impl<'a> TakeExt for DynRead<'a> {
    fn take(self, limit: u64) -> (r: Take<Self>) { Take { inner: self, limit } }
}
// T8: `&mut dyn Read` is represented by this opaque reborrow of some reader; T7x `(reader as &mut dyn Read)`
// becomes shim_as_dyn_read(reader): same object, same ghost state (TRUSTED)
#[verifier::external_body]
pub struct DynRead<'a> { r: &'a mut u8 }
impl<'a> Dev for DynRead<'a> {
    uninterp spec fn g_dev(&self) -> bool;
    uninterp spec fn g_bytes(&self) -> Seq<u8>;
    uninterp spec fn g_pos(&self) -> int;
    uninterp spec fn g_fault(&self) -> bool;
}
impl<'a> Read for DynRead<'a> {
    #[verifier::external_body]
    fn read(&mut self, buf: &mut [u8]) -> (r: io::Result<usize>) { unimplemented!() }
}
#[verifier::external_body]
pub fn shim_as_dyn_read<'a, R: Read>(reader: &'a mut R) -> (r: DynRead<'a>)
    ensures r.g_dev() == old(reader).g_dev(), r.g_bytes() == old(reader).g_bytes(), r.g_pos() == old(reader).g_pos(),
        r.g_fault() == old(reader).g_fault(),
        // whatever is done through the trait object (only Read operations), the reader stays the same device
        rd_step(old(reader), final(reader)),
{ unimplemented!() }

#[verifier::external_body] #[verifier::accept_recursive_types(R)]
pub struct BufReader<R> { r: R }
impl<R> BufReader<R> {
    pub uninterp spec fn g_inner(&self) -> R;
    #[verifier::external_body] pub fn into_inner(self) -> (r: R) ensures r == self.g_inner() { unimplemented!() }
    #[verifier::external_body] pub fn get_mut(&mut self) -> (r: &mut R) ensures *r == old(self).g_inner(), final(self).g_inner() == *final(r) { unimplemented!() }
}

// T8: `&mut dyn Write` (GenericZipWriter::ref_mut) is represented by this opaque reborrow of some writer
#[verifier::external_body]
pub struct DynWrite<'a> { w: &'a mut u8 }
impl<'a> Dev for DynWrite<'a> {
    uninterp spec fn g_dev(&self) -> bool;
    uninterp spec fn g_bytes(&self) -> Seq<u8>;
    uninterp spec fn g_pos(&self) -> int;
    uninterp spec fn g_fault(&self) -> bool;
}
impl<'a> Write for DynWrite<'a> {
    #[verifier::external_body]
    fn write(&mut self, buf: &[u8]) -> (r: io::Result<usize>) { unimplemented!() }
    #[verifier::external_body]
    fn flush(&mut self) -> (r: io::Result<()>) { unimplemented!() }
}
// impl Write for Vec<u8> (std): appends everything, never fails
impl Dev for Vec<u8> {
    open spec fn g_dev(&self) -> bool { false }
    open spec fn g_bytes(&self) -> Seq<u8> { Seq::empty() }
    open spec fn g_pos(&self) -> int { 0 }
    open spec fn g_fault(&self) -> bool { false }
}
impl Write for Vec<u8> {
    #[verifier::external_body]
    fn write(&mut self, buf: &[u8]) -> (r: io::Result<usize>)
        ensures r == Ok::<usize, io::Error>(buf@.len() as usize), final(self)@ == old(self)@ + buf@
    { unimplemented!() }
    #[verifier::external_body]
    fn flush(&mut self) -> (r: io::Result<()>) ensures r is Ok, final(self)@ == old(self)@ { unimplemented!() }
}
