// ===========================================================================
// TRUSTED: pieces of std / byteorder that the leaf functions of src/write.rs call and that neither vstd nor
// shims/io.rs specify.  Every item here is an assumption (counted by the assumption scan).
// ===========================================================================
use std::mem;
use vstd::std_specs::range::ContainsSpec;

// std::mem::replace: moves `src` in, hands the previous value out
pub assume_specification<T> [std::mem::replace] (dest: &mut T, src: T) -> (r: T)
    ensures *final(dest) == src, r == *old(dest);

// std::mem::take: moves the value out and leaves `T::default()` behind
pub assume_specification<T: Default> [std::mem::take] (dest: &mut T) -> (r: T)
    ensures r == *old(dest), call_ensures(T::default, (), *final(dest));

// T7 `any_eq`: EXTRA_FIELD_MAPPING.iter().any(|&mapped| mapped == kind)
// ASSUMED: Iterator::any over a slice iterator with an equality closure is membership
#[verifier::external_body]
pub fn shim_slice_contains_u16<const N: usize>(a: &[u16; N], k: u16) -> (r: bool)
    ensures r == (exists|i: int| 0 <= i < a@.len() && #[trigger] a@[i] == k)
{ unimplemented!() }

// T7 `format`: format!(..) used only to build an error message
// ASSUMED: returns some String, no other effect
#[verifier::external_body]
pub fn shim_format_opaque() -> (r: String)
{ unimplemented!() }

// T7x in validate_extra_data: `data.read_u16::<LittleEndian>()` on `let mut data: &[u8]`
// ASSUMED (std `impl Read for &[u8]` + byteorder): fails iff fewer than two bytes are left; otherwise returns the
// little-endian value of the first two bytes and advances the slice past them.
#[verifier::external_body]
pub fn shim_slice_read_u16<'a>(data: &mut &'a [u8]) -> (r: io::Result<u16>)
    ensures
        r is Err <==> old(data)@.len() < 2,
        r matches Ok(v) ==> v == de16(old(data)@.subrange(0, 2))
            && final(data)@ == old(data)@.subrange(2, old(data)@.len() as int),
{ unimplemented!() }

// (std::num::Wrapping<T> is made known to Verus in shims/zipcrypto_spec.rs, included through common/writer_types.rs)

// `?` on an io::Result inside a function returning ZipResult converts the error with `From::from`
// (language definition of `?`).  The installed vstd specifies that conversion only through the uninterpreted
// relation `spec_from` and knows it for the identity conversion alone; this axiom ties it to the From spec of
// ZipError (shims/prelude.rs: from_spec(e) == ZipError::Io(e), the body of the real `impl From<io::Error>`).
// ASSUMED.  Needed where a postcondition speaks about WHICH error a `?` exit returns (switch_to).
pub broadcast axiom fn axiom_question_mark_converts_with_from(e: io::Error, z: ZipError)
    ensures #[trigger] vstd::std_specs::control_flow::spec_from::<ZipError, io::Error>(e, z)
        ==> z == <ZipError as vstd::std_specs::convert::FromSpec<io::Error>>::from_spec(e);
