// TRUSTED: std::path.  `spec_components` is UNINTERPRETED: the proofs hold for
// any behaviour of std::path::Components, because C06 itself is phrased over
// the component walk.  (Host semantics: unix.)
pub mod path {
    use vstd::prelude::*;
    pub struct PrefixComponent { pub k: u8 }
    #[verifier::external_body]
    pub struct OsStr { _p: [u8] }
    #[derive(Clone, Copy)]
    pub enum Component<'a> { Prefix(PrefixComponent), RootDir, CurDir, ParentDir, Normal(&'a OsStr) }
    impl Clone for PrefixComponent { #[verifier::external_body] fn clone(&self) -> Self { PrefixComponent { k: self.k } } }
    impl Copy for PrefixComponent {}

    #[verifier::external_body]
    pub struct Path { _p: [u8] }
    #[verifier::external_body]
    pub struct PathBuf { _p: Vec<u8> }

    pub uninterp spec fn spec_components(p: &Path) -> Seq<Component<'static>>;
    pub uninterp spec fn spec_path_of(s: Seq<char>) -> &'static Path;

    impl Path {
        #[verifier::external_body]
        pub fn new(s: &String) -> (p: &Path)
            ensures p == spec_path_of(s@)
        { unimplemented!() }

        #[verifier::external_body]
        pub fn components(&self) -> (c: Components<'_>)
            ensures c.g_all() == spec_components(self), c.g_pos() == 0, c.g_all().len() < usize::MAX
        { unimplemented!() }
    }

    #[verifier::external_body]
    pub struct Components<'a> { _x: &'a u8 }
    impl<'a> Components<'a> {
        pub uninterp spec fn g_all(&self) -> Seq<Component<'static>>;
        pub uninterp spec fn g_pos(&self) -> int;
    }
    impl<'a> Iterator for Components<'a> {
        type Item = Component<'a>;
        #[verifier::external_body]
        fn next(&mut self) -> (r: Option<Component<'a>>)
            ensures
                final(self).g_all() == old(self).g_all(),
                old(self).g_pos() >= old(self).g_all().len() ==> r is None && final(self).g_pos() == old(self).g_pos(),
                0 <= old(self).g_pos() < old(self).g_all().len() ==> r == Some(old(self).g_all()[old(self).g_pos()]) && final(self).g_pos() == old(self).g_pos() + 1,
        { unimplemented!() }
    }
}
// T7 `contains_nul`: `self.file_name.contains('\0')`
#[verifier::external_body]
pub fn shim_str_contains_nul(s: &String) -> (b: bool)
    ensures b == s@.contains('\0')
{ s.contains('\0') }
