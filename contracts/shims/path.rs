// TRUSTED: std::path.  `spec_components` is UNINTERPRETED: the proofs hold for
// any behaviour of std::path::Components, because C06 itself is phrased over
// the component walk.  (Host semantics: unix.)
pub mod path {
    use vstd::prelude::*;
    pub struct PrefixComponent { pub k: u8 }
    #[verifier::external_body]
    pub struct OsStr { _p: [u8] }
    #[derive(Clone, Copy)]
    pub enum Component<'a> { Prefix(PrefixComponent), RootDir, CurDir, ParentDir, Normal(&'a OsStr) }
    impl<'a> Component<'a> {
        // ASSUMED (std): the OS string of an ordinary component is that component's name
        #[verifier::external_body]
        pub fn as_os_str(self) -> (r: &'a OsStr) ensures self matches Component::Normal(o) ==> r == o { unimplemented!() }
    }
    pub const MAIN_SEPARATOR: char = '/';     // cfg(unix)
    impl Clone for PrefixComponent { #[verifier::external_body] fn clone(&self) -> Self { PrefixComponent { k: self.k } } }
    impl Copy for PrefixComponent {}

    #[verifier::external_body]
    pub struct Path { _p: [u8] }
    #[verifier::external_body]
    pub struct PathBuf { _p: Vec<u8> }

    pub uninterp spec fn spec_components(p: &Path) -> Seq<Component<'static>>;
    pub uninterp spec fn spec_path_of(s: Seq<char>) -> &'static Path;

    impl PathBuf {
        // the component list a PathBuf was built from (ghost); ASSUMED (std): new() is empty, push(name) of an ordinary
        // component name appends one ordinary component
        pub uninterp spec fn comps(&self) -> Seq<Component<'static>>;
        #[verifier::external_body]
        pub fn new() -> (p: PathBuf) ensures p.comps() == Seq::<Component<'static>>::empty() { unimplemented!() }
        #[verifier::external_body]
        pub fn push(&mut self, c: &OsStr) ensures final(self).comps() == old(self).comps().push(Component::Normal(c)) { unimplemented!() }
    }
    impl Path {
        #[verifier::external_body]
        pub fn new(s: &String) -> (p: &Path)
            ensures p == spec_path_of(s@)
        { unimplemented!() }

        #[verifier::external_body]
        pub fn components(&self) -> (c: Components<'_>)
            ensures c.g_all() == spec_components(self), c.g_pos() == 0, c.g_all().len() < usize::MAX
        { unimplemented!() }
    }

    #[verifier::external_body]
    pub struct Components<'a> { _x: &'a u8 }
    impl<'a> Components<'a> {
        pub uninterp spec fn g_all(&self) -> Seq<Component<'static>>;
        pub uninterp spec fn g_pos(&self) -> int;
        // ASSUMED (std Iterator::filter / fold, T12): specified through the closures' own contracts (call_ensures):
        // `fold` threads the accumulator through exactly the elements for which the predicate answered true, in order
        #[verifier::external_body]
        pub fn filter<P: Fn(&Component<'a>) -> bool>(self, pred: P) -> (f: Filter<'a, P>)
            requires forall|c: Component<'a>| pred.requires((&c,)), self.g_pos() == 0,
            ensures f.g_src() == self.g_all(), f.g_pred() == pred,
        { unimplemented!() }
    }
    #[verifier::external_body]
    #[verifier::reject_recursive_types(P)]
    pub struct Filter<'a, P> { _x: &'a u8, _p: P }
    impl<'a, P: Fn(&Component<'a>) -> bool> Filter<'a, P> {
        pub uninterp spec fn g_src(&self) -> Seq<Component<'static>>;
        pub uninterp spec fn g_pred(&self) -> P;
        #[verifier::external_body]
        pub fn fold<B, F: Fn(B, Component<'a>) -> B>(self, init: B, f: F) -> (r: B)
            requires forall|b: B, c: Component<'a>| self.g_pred().ensures((&c,), true) ==> f.requires((b, c)),
            ensures exists|accs: Seq<B>| #[trigger] fold_rel(self.g_src(), self.g_pred(), f, init, accs) && r == accs.last(),
        { unimplemented!() }
    }
    // accs[0] = init; accs[i+1] = the closure's result on (accs[i], src[i]) if the predicate holds for src[i], else accs[i]
    pub open spec fn fold_rel<'a, B, P: Fn(&Component<'a>) -> bool, F: Fn(B, Component<'a>) -> B>(src: Seq<Component<'static>>, pred: P, f: F, init: B, accs: Seq<B>) -> bool {
        &&& accs.len() == src.len() + 1
        &&& accs[0] == init
        &&& forall|i: int| 0 <= i < src.len() ==> (
                (pred.ensures((&src[i],), true) && f.ensures((accs[i], src[i]), #[trigger] accs[i + 1]))
                || (pred.ensures((&src[i],), false) && accs[i + 1] == accs[i]))
    }
    impl<'a> Iterator for Components<'a> {
        type Item = Component<'a>;
        #[verifier::external_body]
        fn next(&mut self) -> (r: Option<Component<'a>>)
            ensures
                final(self).g_all() == old(self).g_all(),
                old(self).g_pos() >= old(self).g_all().len() ==> r is None && final(self).g_pos() == old(self).g_pos(),
                0 <= old(self).g_pos() < old(self).g_all().len() ==> r == Some(old(self).g_all()[old(self).g_pos()]) && final(self).g_pos() == old(self).g_pos() + 1,
        { unimplemented!() }
    }
}
// T7 `contains_nul`: `self.file_name.contains('\0')`
#[verifier::external_body]
pub fn shim_str_contains_nul(s: &String) -> (b: bool)
    ensures b == s@.contains('\0')
{ s.contains('\0') }
