// ===========================================================================
// TRUSTED BASE (DESIGN.md section 3.2): the crates `aes` (+ `cipher`, `generic-array`), `hmac`, `sha1`,
// `pbkdf2`, `constant_time_eq`.  Nothing here is proved.  The cryptographic functions are UNINTERPRETED:
// C16 holds *relative to* these crates computing AES / HMAC-SHA1 / PBKDF2; the contracts pin which bytes
// go into which primitive, in which order, and what is compared with what.
// ===========================================================================

// std trait mentioned by the bound `type Key: AsRef<[u8]>` of the crate's `AesKind` (no method of it is called)
#[verifier::external_trait_specification]
pub trait ExAsRef<T: core::marker::PointeeSized>: core::marker::PointeeSized {   // needs #![feature(sized_hierarchy)] in the unit
    type ExternalTraitSpecificationFor: core::convert::AsRef<T>;
}

// std: `Vec<u8> != &[u8]` (AesReader::validate compares the stored and the derived password verifier with it).
// The std impl is generic (`impl PartialEq<&[U]> for Vec<T, A> where T: PartialEq<U>`), so the assumed spec goes
// through an uninterpreted element-wise equality that is axiomatised for bytes only.
pub uninterp spec fn slice_eq_spec<T, U>(a: Seq<T>, b: Seq<U>) -> bool;
pub broadcast axiom fn axiom_slice_eq_u8(a: Seq<u8>, b: Seq<u8>)
    ensures #[trigger] slice_eq_spec::<u8, u8>(a, b) == (a == b);
pub assume_specification<'a, T: PartialEq<U>, U, A: core::alloc::Allocator> [ <Vec<T, A> as PartialEq<&'a [U]>>::ne ] (a: &Vec<T, A>, b: &&[U]) -> (r: bool)
    ensures r == !slice_eq_spec::<T, U>(a@, b@);

// ---- AES block function and the WinZip CTR key stream built from it -------
// aes_enc(key, block): the AES forward cipher on one 16-byte block (assumed: crate `aes`)
pub uninterp spec fn aes_enc(key: Seq<u8>, block: Seq<u8>) -> Seq<u8>;
// 16-byte little-endian encoding of the block counter (defined, not assumed)
pub open spec fn le128(v: u128) -> Seq<u8> { Seq::new(16, |i: int| ((v >> ((8 * i) as u128)) & 0xff) as u8) }
// key-stream block number `counter` (WinZip AE-x: no nonce, little-endian counter, first block has counter 1)
pub open spec fn aes_block(key: Seq<u8>, counter: u128) -> Seq<u8> { aes_enc(key, le128(counter)) }
// i-th byte (i >= 0) of the key stream under `key`
pub open spec fn ks_byte(key: Seq<u8>, i: int) -> u8 { aes_block(key, (i / 16 + 1) as u128)[i % 16] }
// how many key-stream bytes exist before the u128 block counter would overflow (blocks 1 ..= u128::MAX - 1)
pub open spec fn ks_limit() -> int { 16 * (0xffff_ffff_ffff_ffff_ffff_ffff_ffff_ffffu128 - 1) }

// what `crypt_in_place` does to a buffer: XOR with the key stream from offset k on
pub open spec fn ctr_xor(key: Seq<u8>, k: int, before: Seq<u8>, after: Seq<u8>) -> bool {
    after.len() == before.len()
    && forall|i: int| 0 <= i < before.len() ==> #[trigger] after[i] == before[i] ^ ks_byte(key, k + i)
}

pub mod aes {
    use vstd::prelude::*;
    use super::*;
    pub mod cipher {
        use vstd::prelude::*;
        use super::super::*;
        pub mod generic_array {
            use vstd::prelude::*;
            // GenericArray<u8, N> seen as its bytes; the length typing (N) is not modelled, the length
            // requirement of `from_slice` (it panics on a wrong length) is carried by `KeyInit::new` below.
            #[verifier::external_body]
            pub struct GenericArray { b: [u8; 1] }
            impl GenericArray {
                pub uninterp spec fn view(&self) -> Seq<u8>;
                #[verifier::external_body]
                pub fn from_slice(s: &[u8]) -> (r: &GenericArray)
                    ensures r@ == s@
                { unimplemented!() }
                #[verifier::external_body]
                pub fn from_mut_slice(s: &mut [u8]) -> (r: &mut GenericArray)
                    ensures r@ == old(s)@, final(s)@ == final(r)@
                { unimplemented!() }
            }
        }
        pub use generic_array::GenericArray;
        // ghost: the key a cipher instance was created with
        pub trait AesKeyed {
            spec fn g_key(&self) -> Seq<u8>;
        }
        pub trait KeyInit: AesKeyed + Sized {
            spec fn key_size() -> int;
            // `GenericArray::from_slice(key)` panics unless key.len() is the cipher's key size
            fn new(key: &GenericArray) -> (r: Self)
                requires key@.len() == Self::key_size()
                ensures r.g_key() == key@;
        }
        pub trait BlockEncrypt: AesKeyed {
            fn encrypt_block(&self, block: &mut GenericArray)
                ensures final(block)@ == aes_enc(self.g_key(), old(block)@);
        }
    }
    #[verifier::external_body] pub struct Aes128 { k: u8 }
    #[verifier::external_body] pub struct Aes192 { k: u8 }
    #[verifier::external_body] pub struct Aes256 { k: u8 }
    impl cipher::AesKeyed for Aes128 { uninterp spec fn g_key(&self) -> Seq<u8>; }
    impl cipher::AesKeyed for Aes192 { uninterp spec fn g_key(&self) -> Seq<u8>; }
    impl cipher::AesKeyed for Aes256 { uninterp spec fn g_key(&self) -> Seq<u8>; }
    impl cipher::KeyInit for Aes128 {
        open spec fn key_size() -> int { 16 }
        #[verifier::external_body] fn new(key: &cipher::GenericArray) -> (r: Self) { unimplemented!() }
    }
    impl cipher::KeyInit for Aes192 {
        open spec fn key_size() -> int { 24 }
        #[verifier::external_body] fn new(key: &cipher::GenericArray) -> (r: Self) { unimplemented!() }
    }
    impl cipher::KeyInit for Aes256 {
        open spec fn key_size() -> int { 32 }
        #[verifier::external_body] fn new(key: &cipher::GenericArray) -> (r: Self) { unimplemented!() }
    }
    impl cipher::BlockEncrypt for Aes128 {
        #[verifier::external_body] fn encrypt_block(&self, block: &mut cipher::GenericArray) { unimplemented!() }
    }
    impl cipher::BlockEncrypt for Aes192 {
        #[verifier::external_body] fn encrypt_block(&self, block: &mut cipher::GenericArray) { unimplemented!() }
    }
    impl cipher::BlockEncrypt for Aes256 {
        #[verifier::external_body] fn encrypt_block(&self, block: &mut cipher::GenericArray) { unimplemented!() }
    }
}

// T7x target (AesCtrZipKeyStream::crypt_in_place):
//   self.buffer.as_mut().write_u128::<byteorder::LittleEndian>(self.counter).expect(..)
// assumed: `<[u8; 16]>::as_mut()` is the whole array as a slice, `impl Write for &mut [u8]` copies to its front,
// byteorder's write_u128::<LittleEndian> emits the 16 little-endian bytes and cannot fail on a 16-byte
// destination, so the `expect` does not panic.
#[verifier::external_body]
pub fn shim_store_u128_le(buf: &mut [u8; 16], v: u128)
    ensures final(buf)@ == le128(v)
{ unimplemented!() }

// ---- HMAC-SHA1 -----------------------------------------------------------
// hmac_sha1(key, msg): the 20-byte tag (assumed: crates `hmac`, `sha1`)
pub uninterp spec fn hmac_sha1(key: Seq<u8>, msg: Seq<u8>) -> Seq<u8>;
pub struct Sha1;
pub struct InvalidLength;
#[verifier::external]
impl core::fmt::Debug for InvalidLength {
    fn fmt(&self, f: &mut core::fmt::Formatter<'_>) -> core::fmt::Result { Ok(()) }
}
// Hmac<D>: like crc32fast::Hasher -- an accumulator whose ghost view is the bytes fed so far
#[verifier::external_body]
#[verifier::accept_recursive_types(D)]
pub struct Hmac<D> { d: core::marker::PhantomData<D> }
// the result of finalize: CtOutput<Hmac<Sha1>>
#[verifier::external_body]
pub struct CtOutput { b: [u8; 20] }
impl<D> Hmac<D> {
    pub uninterp spec fn view(&self) -> Seq<u8>;
    pub uninterp spec fn key(&self) -> Seq<u8>;
    // HMAC accepts a key of any length: never Err
    #[verifier::external_body]
    pub fn new_from_slice(key: &[u8]) -> (r: Result<Hmac<D>, InvalidLength>)
        ensures r matches Ok(h) && h.key() == key@ && h@ == Seq::<u8>::empty()
    { unimplemented!() }
    #[verifier::external_body]
    pub fn update(&mut self, data: &[u8])
        ensures final(self)@ == old(self)@ + data@, final(self).key() == old(self).key()
    { unimplemented!() }
    #[verifier::external_body]
    pub fn finalize_reset(&mut self) -> (r: CtOutput)
        ensures r@ == hmac_sha1(old(self).key(), old(self)@), final(self)@ == Seq::<u8>::empty(),
            final(self).key() == old(self).key()
    { unimplemented!() }
}
impl CtOutput {
    pub uninterp spec fn view(&self) -> Seq<u8>;
    // GenericArray<u8, U20>, shown as [u8; 20] so that `[0..AUTH_CODE_LENGTH]` is ordinary slicing
    #[verifier::external_body]
    pub fn into_bytes(self) -> (r: [u8; 20])
        ensures r@ == self@
    { unimplemented!() }
}

// ---- PBKDF2-HMAC-SHA1 ------------------------------------------------------
pub uninterp spec fn pbkdf2_hmac_sha1(password: Seq<u8>, salt: Seq<u8>, rounds: u32, len: int) -> Seq<u8>;
pub mod pbkdf2 {
    use vstd::prelude::*;
    use super::*;
    // fills `res` completely with the derived key of that length
    #[verifier::external_body]
    pub fn pbkdf2<PRF>(password: &[u8], salt: &[u8], rounds: u32, res: &mut [u8])
        ensures final(res)@.len() == old(res)@.len(),
            final(res)@ == pbkdf2_hmac_sha1(password@, salt@, rounds, old(res)@.len() as int)
    { unimplemented!() }
}

// ---- constant_time_eq --------------------------------------------------------
#[verifier::external_body]
pub fn constant_time_eq(a: &[u8], b: &[u8]) -> (r: bool)
    ensures r == (a@ == b@)
{ unimplemented!() }
