// ===========================================================================
// TRUSTED (DESIGN.md section 3.2): flate2 / bzip2 / zstd encoders, given contracts, not verified.
//
// An encoder is an opaque value wrapping a sink `W`.  Ghost views (all uninterpreted):
//   inner()     the sink as it was handed to `new` (the encoder owns it until `finish`)
//   g_level()   the level it was created with
//   consumed()  the plaintext accepted so far (the first n bytes of every buffer `write` answered Ok(n) for)
// `write` accepts a prefix of the buffer or fails; `finish` hands the sink back (Ok) or drops it (Err: the
// sink is gone with the encoder, so nothing can be stated about it).
// On Ok, and if the sink is a device, the sink went through one all-or-error write of
// `compress(method, level, consumed)` at the position it had at `new` and no fault was swallowed
// (wr_n of shims/io.rs).  `compress` is uninterpreted: nothing in this unit depends on its value.
// An encoder is not itself a device (g_dev() == false): the sink contracts of `Write` promise nothing for it
// beyond `n <= buf.len()`.
// ===========================================================================
pub uninterp spec fn compress(method: CompressionMethod, level: int, input: Seq<u8>) -> Seq<u8>;

// flate2::write::DeflateEncoder
#[verifier::external_body]
#[verifier::accept_recursive_types(W)]
pub struct DeflateEncoder<W> { w: W, }
impl<W> DeflateEncoder<W> {
    pub uninterp spec fn inner(&self) -> W;
    pub uninterp spec fn g_level(&self) -> int;
    pub uninterp spec fn consumed(&self) -> Seq<u8>;
}
impl<W> Dev for DeflateEncoder<W> {
    open spec fn g_dev(&self) -> bool { false }
    open spec fn g_bytes(&self) -> Seq<u8> { Seq::empty() }
    open spec fn g_pos(&self) -> int { 0 }
    open spec fn g_fault(&self) -> bool { false }
}
impl<W: Write> Write for DeflateEncoder<W> {
    #[verifier::external_body]
    fn write(&mut self, buf: &[u8]) -> (r: io::Result<usize>)
        ensures
            final(self).inner() == old(self).inner(), final(self).g_level() == old(self).g_level(),
            r matches Ok(n) ==> n <= buf@.len() && final(self).consumed() == old(self).consumed() + buf@.subrange(0, n as int),
    { unimplemented!() }
    #[verifier::external_body]
    fn flush(&mut self) -> (r: io::Result<()>)
        ensures
            final(self).inner() == old(self).inner(), final(self).g_level() == old(self).g_level(),
            final(self).consumed() == old(self).consumed(),
    { unimplemented!() }
}
impl<W: Write> DeflateEncoder<W> {
    #[verifier::external_body]
    pub fn finish(self) -> (r: io::Result<W>)
        ensures
            r matches Ok(w) ==> wr_n(&self.inner(), &w, true, compress(CompressionMethod::Deflated, self.g_level(), self.consumed())),
    { unimplemented!() }
}
impl<W: Write> DeflateEncoder<W> {
    #[verifier::external_body]
    // flate2: levels are 0..=9 (the zlib back ends assert on anything else)
    pub fn new(w: W, level: flate2::Compression) -> (r: DeflateEncoder<W>)
        requires level.0 <= 9,
        ensures r.inner() == w, r.g_level() == level.0 as int, r.consumed() == Seq::<u8>::empty(),
    { unimplemented!() }
}

// bzip2::write::BzEncoder
#[verifier::external_body]
#[verifier::accept_recursive_types(W)]
pub struct BzEncoder<W> { w: W, }
impl<W> BzEncoder<W> {
    pub uninterp spec fn inner(&self) -> W;
    pub uninterp spec fn g_level(&self) -> int;
    pub uninterp spec fn consumed(&self) -> Seq<u8>;
}
impl<W> Dev for BzEncoder<W> {
    open spec fn g_dev(&self) -> bool { false }
    open spec fn g_bytes(&self) -> Seq<u8> { Seq::empty() }
    open spec fn g_pos(&self) -> int { 0 }
    open spec fn g_fault(&self) -> bool { false }
}
impl<W: Write> Write for BzEncoder<W> {
    #[verifier::external_body]
    fn write(&mut self, buf: &[u8]) -> (r: io::Result<usize>)
        ensures
            final(self).inner() == old(self).inner(), final(self).g_level() == old(self).g_level(),
            r matches Ok(n) ==> n <= buf@.len() && final(self).consumed() == old(self).consumed() + buf@.subrange(0, n as int),
    { unimplemented!() }
    #[verifier::external_body]
    fn flush(&mut self) -> (r: io::Result<()>)
        ensures
            final(self).inner() == old(self).inner(), final(self).g_level() == old(self).g_level(),
            final(self).consumed() == old(self).consumed(),
    { unimplemented!() }
}
impl<W: Write> BzEncoder<W> {
    #[verifier::external_body]
    pub fn finish(self) -> (r: io::Result<W>)
        ensures
            r matches Ok(w) ==> wr_n(&self.inner(), &w, true, compress(CompressionMethod::Bzip2, self.g_level(), self.consumed())),
    { unimplemented!() }
}
impl<W: Write> BzEncoder<W> {
    #[verifier::external_body]
    // libbz2: BZ2_bzCompressInit refuses a block size outside 1..=9 and bzip2 0.4.4 (src/mem.rs:123) asserts on that
    pub fn new(w: W, level: bzip2::Compression) -> (r: BzEncoder<W>)
        requires 1 <= level.0 <= 9,
        ensures r.inner() == w, r.g_level() == level.0 as int, r.consumed() == Seq::<u8>::empty(),
    { unimplemented!() }
}

// zstd::stream::write::Encoder
#[verifier::external_body]
#[verifier::accept_recursive_types(W)]
pub struct ZstdEncoder<'a, W> { w: W, p: core::marker::PhantomData<&'a ()>, }
impl<'a, W> ZstdEncoder<'a, W> {
    pub uninterp spec fn inner(&self) -> W;
    pub uninterp spec fn g_level(&self) -> int;
    pub uninterp spec fn consumed(&self) -> Seq<u8>;
}
impl<'a, W> Dev for ZstdEncoder<'a, W> {
    open spec fn g_dev(&self) -> bool { false }
    open spec fn g_bytes(&self) -> Seq<u8> { Seq::empty() }
    open spec fn g_pos(&self) -> int { 0 }
    open spec fn g_fault(&self) -> bool { false }
}
impl<'a, W: Write> Write for ZstdEncoder<'a, W> {
    #[verifier::external_body]
    fn write(&mut self, buf: &[u8]) -> (r: io::Result<usize>)
        ensures
            final(self).inner() == old(self).inner(), final(self).g_level() == old(self).g_level(),
            r matches Ok(n) ==> n <= buf@.len() && final(self).consumed() == old(self).consumed() + buf@.subrange(0, n as int),
    { unimplemented!() }
    #[verifier::external_body]
    fn flush(&mut self) -> (r: io::Result<()>)
        ensures
            final(self).inner() == old(self).inner(), final(self).g_level() == old(self).g_level(),
            final(self).consumed() == old(self).consumed(),
    { unimplemented!() }
}
impl<'a, W: Write> ZstdEncoder<'a, W> {
    #[verifier::external_body]
    pub fn finish(self) -> (r: io::Result<W>)
        ensures
            r matches Ok(w) ==> wr_n(&self.inner(), &w, true, compress(CompressionMethod::Zstd, self.g_level(), self.consumed())),
    { unimplemented!() }
}
impl<W: Write> ZstdEncoder<'static, W> {
    // ASSUMED Ok: the constructor fails only on context allocation / an invalid parameter, and the caller has
    // clamped the level to zstd::compression_level_range() (DESIGN.md section 3.2)
    #[verifier::external_body]
    pub fn new(w: W, level: i32) -> (r: io::Result<ZstdEncoder<'static, W>>)
        ensures r is Ok, r->Ok_0.inner() == w, r->Ok_0.g_level() == level as int, r->Ok_0.consumed() == Seq::<u8>::empty(),
    { unimplemented!() }
}

// ---- compression level descriptors (TRUSTED to mirror the dependency)
pub mod flate2 {
    use vstd::prelude::*;
    // transcription of flate2 1.1.10 src/lib.rs (`pub struct Compression(u32)` and its constructors)
    #[derive(Copy, Clone)]
    pub struct Compression(pub u32);
    impl Compression {
        pub fn new(level: u32) -> (r: Compression) ensures r.0 == level { Compression(level) }
        pub fn none() -> (r: Compression) ensures r.0 == 0 { Compression(0) }
        pub fn fast() -> (r: Compression) ensures r.0 == 1 { Compression(1) }
        pub fn best() -> (r: Compression) ensures r.0 == 9 { Compression(9) }
        pub fn level(&self) -> (r: u32) ensures r == self.0 { self.0 }
    }
    impl Default for Compression {
        fn default() -> (r: Compression) ensures r.0 == 6 { Compression(6) }
    }
}
pub mod bzip2 {
    use vstd::prelude::*;
    // transcription of bzip2 0.4.4 src/lib.rs (`pub struct Compression(u32)` and its constructors)
    #[derive(Copy, Clone)]
    pub struct Compression(pub u32);
    impl Compression {
        pub fn new(level: u32) -> (r: Compression) ensures r.0 == level { Compression(level) }
        pub fn none() -> (r: Compression) ensures r.0 == 0 { Compression(0) }
        pub fn fast() -> (r: Compression) ensures r.0 == 1 { Compression(1) }
        pub fn best() -> (r: Compression) ensures r.0 == 9 { Compression(9) }
        pub fn level(&self) -> (r: u32) ensures r == self.0 { self.0 }
    }
    impl Default for Compression {
        fn default() -> (r: Compression) ensures r.0 == 6 { Compression(6) }
    }
}
// zstd 0.11.2: DEFAULT_COMPRESSION_LEVEL = zstd_safe::CLEVEL_DEFAULT = 3;
// compression_level_range() = ZSTD_minCLevel()..=ZSTD_maxCLevel(), decided by the linked C library:
// left UNINTERPRETED but fixed (the crate's doc says -7..=22; libzstd 1.5 reports -131072..=22).
// ASSUMED: the default level lies inside the range (zstd's own unit test asserts it).
pub mod zstd {
    use vstd::prelude::*;
    pub const DEFAULT_COMPRESSION_LEVEL: i32 = 3;
    pub uninterp spec fn min_level() -> i32;
    pub uninterp spec fn max_level() -> i32;
    #[verifier::external_body]
    pub fn compression_level_range() -> (r: std::ops::RangeInclusive<i32>)
        ensures r@.start == min_level(), r@.end == max_level(), !r@.exhausted,
            min_level() <= DEFAULT_COMPRESSION_LEVEL <= max_level(),
    { unimplemented!() }
}
