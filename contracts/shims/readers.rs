// ===========================================================================
// TRUSTED / ASSUMED for unit U8: io::Take, io::BufReader, decompressors, and the
// crate's own crypto readers (contract-only here; ZipCrypto byte level is proved
// by Kani group `zipcrypto`, the AES reader in unit U11).
// ===========================================================================
// ---- decompressors: opaque adapters (ASSUMED: output = decompress(consumed input); never read past their source)
#[verifier::external_body] #[verifier::accept_recursive_types(R)]
pub struct DeflateDecoder<R> { r: R }
#[verifier::external_body] #[verifier::accept_recursive_types(R)]
pub struct BzDecoder<R> { r: R }
#[verifier::external_body] #[verifier::accept_recursive_types(R)]
pub struct ZstdDecoder<'a, R> { r: R, p: core::marker::PhantomData<&'a u8> }
impl<R> DeflateDecoder<R> {
    pub uninterp spec fn g_inner(&self) -> R;
    #[verifier::external_body] pub fn new(r: R) -> (d: DeflateDecoder<R>) ensures d.g_inner() == r { unimplemented!() }
    #[verifier::external_body] pub fn into_inner(self) -> (r: R) ensures r == self.g_inner() { unimplemented!() }
    // ASSUMED (flate2): a mutable reference to the reader the decoder sits on; the decoder is otherwise untouched
    #[verifier::external_body] pub fn get_mut(&mut self) -> (r: &mut R) ensures *r == old(self).g_inner(), final(self).g_inner() == *final(r) { unimplemented!() }
}
impl<R> BzDecoder<R> {
    pub uninterp spec fn g_inner(&self) -> R;
    #[verifier::external_body] pub fn new(r: R) -> (d: BzDecoder<R>) ensures d.g_inner() == r { unimplemented!() }
    #[verifier::external_body] pub fn into_inner(self) -> (r: R) ensures r == self.g_inner() { unimplemented!() }
    // ASSUMED (bzip2): a mutable reference to the reader the decoder sits on; the decoder is otherwise untouched
    #[verifier::external_body] pub fn get_mut(&mut self) -> (r: &mut R) ensures *r == old(self).g_inner(), final(self).g_inner() == *final(r) { unimplemented!() }
}
impl<'a, R> ZstdDecoder<'a, BufReader<R>> {
    pub uninterp spec fn g_inner(&self) -> BufReader<R>;
    // ASSUMED: constructing a zstd decoder context does not fail (the crate unwraps it)
    #[verifier::external_body] pub fn new(r: R) -> (d: io::Result<ZstdDecoder<'a, BufReader<R>>>) ensures d is Ok, d->Ok_0.g_inner().g_inner() == r { unimplemented!() }
    #[verifier::external_body] pub fn finish(self) -> (r: BufReader<R>) ensures r == self.g_inner() { unimplemented!() }
    // ASSUMED (zstd): a mutable reference to the reader the decoder sits on; the decoder is otherwise untouched
    #[verifier::external_body] pub fn get_mut(&mut self) -> (r: &mut BufReader<R>) ensures *r == old(self).g_inner(), final(self).g_inner() == *final(r) { unimplemented!() }
}
impl<R> Dev for DeflateDecoder<R> { open spec fn g_dev(&self) -> bool { false } open spec fn g_bytes(&self) -> Seq<u8> { Seq::empty() } open spec fn g_pos(&self) -> int { 0 } open spec fn g_fault(&self) -> bool { false } }
impl<R> Dev for BzDecoder<R> { open spec fn g_dev(&self) -> bool { false } open spec fn g_bytes(&self) -> Seq<u8> { Seq::empty() } open spec fn g_pos(&self) -> int { 0 } open spec fn g_fault(&self) -> bool { false } }
impl<'a, R> Dev for ZstdDecoder<'a, R> { open spec fn g_dev(&self) -> bool { false } open spec fn g_bytes(&self) -> Seq<u8> { Seq::empty() } open spec fn g_pos(&self) -> int { 0 } open spec fn g_fault(&self) -> bool { false } }
impl<R: Read> Read for DeflateDecoder<R> { #[verifier::external_body] fn read(&mut self, buf: &mut [u8]) -> (r: io::Result<usize>) { unimplemented!() } }
impl<R: Read> Read for BzDecoder<R> { #[verifier::external_body] fn read(&mut self, buf: &mut [u8]) -> (r: io::Result<usize>) { unimplemented!() } }
impl<'a, R: Read> Read for ZstdDecoder<'a, BufReader<R>> { #[verifier::external_body] fn read(&mut self, buf: &mut [u8]) -> (r: io::Result<usize>) { unimplemented!() } }

// ---- the crate's crypto readers, contract only (ghost accessors record what they were built from)
pub enum ZipCryptoValidator { PkzipCrc32(u32), InfoZipMsdosTime(u16) }
#[verifier::external_body] #[verifier::accept_recursive_types(R)]
pub struct ZipCryptoReader<R> { r: R }
#[verifier::external_body] #[verifier::accept_recursive_types(R)]
pub struct ZipCryptoReaderValid<R> { r: R }
impl<R: Read> ZipCryptoReader<R> {
    pub uninterp spec fn g_file(&self) -> R;
    pub uninterp spec fn g_password(&self) -> Seq<u8>;
    #[verifier::external_body] pub fn new(file: R, password: &[u8]) -> (r: ZipCryptoReader<R>) ensures r.g_file() == file, r.g_password() == password@ { unimplemented!() }
    // Ok(None) = wrong password (check byte mismatch); the 12-byte header has been consumed from the file
    #[verifier::external_body] pub fn validate(self, validator: ZipCryptoValidator) -> (r: io::Result<Option<ZipCryptoReaderValid<R>>>)
        ensures r matches Ok(Some(v)) ==> v.g_password() == self.g_password() && v.g_validator() == validator
    { unimplemented!() }
}
impl<R> ZipCryptoReaderValid<R> {
    pub uninterp spec fn g_file(&self) -> R;
    pub uninterp spec fn g_password(&self) -> Seq<u8>;
    pub uninterp spec fn g_validator(&self) -> ZipCryptoValidator;
    #[verifier::external_body] pub fn into_inner(self) -> (r: R) ensures r == self.g_file() { unimplemented!() }
}
impl<R> Dev for ZipCryptoReaderValid<R> { open spec fn g_dev(&self) -> bool { false } open spec fn g_bytes(&self) -> Seq<u8> { Seq::empty() } open spec fn g_pos(&self) -> int { 0 } open spec fn g_fault(&self) -> bool { false } }
impl<R: Read> Read for ZipCryptoReaderValid<R> { #[verifier::external_body] fn read(&mut self, buf: &mut [u8]) -> (r: io::Result<usize>) { unimplemented!() } }

#[verifier::external_body] #[verifier::accept_recursive_types(R)]
pub struct AesReader<R> { r: R }
#[verifier::external_body] #[verifier::accept_recursive_types(R)]
pub struct AesReaderValid<R> { r: R }
pub open spec fn aes_overhead(m: AesMode) -> int { 12 + (match m { AesMode::Aes128 => 8int, AesMode::Aes192 => 12, AesMode::Aes256 => 16 }) }
impl<R: Read> AesReader<R> {
    pub uninterp spec fn g_reader(&self) -> R;
    pub uninterp spec fn g_mode(&self) -> AesMode;
    pub uninterp spec fn g_data_length(&self) -> u64;
    // contract proved in unit U11 (underflow guard)
    #[verifier::external_body] pub fn new(reader: R, aes_mode: AesMode, compressed_size: u64) -> (r: io::Result<AesReader<R>>)
        ensures r is Ok <==> compressed_size >= aes_overhead(aes_mode),
            r matches Ok(a) ==> a.g_reader() == reader && a.g_mode() == aes_mode && a.g_data_length() == compressed_size - aes_overhead(aes_mode)
    { unimplemented!() }
    #[verifier::external_body] pub fn validate(self, password: &[u8]) -> (r: io::Result<Option<AesReaderValid<R>>>)
        ensures r matches Ok(Some(v)) ==> v.g_mode() == self.g_mode() && v.g_password() == password@
    { unimplemented!() }
}
impl<R> AesReaderValid<R> {
    pub uninterp spec fn g_reader(&self) -> R;
    pub uninterp spec fn g_mode(&self) -> AesMode;
    pub uninterp spec fn g_password(&self) -> Seq<u8>;
    // ghost: the authentication code has been read, compared and found to match (field `authenticated`); ciphertext bytes not yet read (field `data_remaining`)
    pub uninterp spec fn g_authenticated(&self) -> bool;
    pub uninterp spec fn g_remaining(&self) -> u64;
    #[verifier::external_body] pub fn into_inner(self) -> (r: R) ensures r == self.g_reader() { unimplemented!() }
}
impl<R> Dev for AesReaderValid<R> { open spec fn g_dev(&self) -> bool { false } open spec fn g_bytes(&self) -> Seq<u8> { Seq::empty() } open spec fn g_pos(&self) -> int { 0 } open spec fn g_fault(&self) -> bool { false } }
impl<R: Read> Read for AesReaderValid<R> {
    // contract PROVED on the real body in unit U11 (clauses advances_by_returned_count, reads_at_most_min_remaining_buflen,
    // ciphertext_that_ends_early_is_an_error, end_of_file_only_after_authentication, authentication_is_never_undone):
    // end-of-file (Ok(0) to a non-empty buffer) is reported only after the authentication code has been checked
    open spec fn g_read_rel(&self, after: &Self, buf_len: int, out: Seq<u8>, r: io::Result<usize>) -> bool {
        &&& after.g_mode() == self.g_mode() && after.g_password() == self.g_password()
        &&& (self.g_authenticated() ==> after.g_authenticated())
        &&& (r matches Ok(n) ==> n <= self.g_remaining() && after.g_remaining() == self.g_remaining() - n
                && (n == 0 && buf_len > 0 ==> after.g_authenticated())
                && (self.g_remaining() > 0 && buf_len > 0 ==> n > 0))
    }
    #[verifier::external_body] fn read(&mut self, buf: &mut [u8]) -> (r: io::Result<usize>) { unimplemented!() }
}
