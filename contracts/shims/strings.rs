// TRUSTED: strings.  `utf8` (the UTF-8 encoding of a string) is uninterpreted; `is_ascii` is vstd's;
// `utf8_lossy(utf8(s)) == s` is an axiom (C19 round trip holds relative to it).
pub uninterp spec fn utf8(s: Seq<char>) -> Seq<u8>;
pub uninterp spec fn utf8_lossy(b: Seq<u8>) -> Seq<char>;
// the CP437 table: one Unicode scalar per byte (uninterpreted here; `to_char` is decided against CPython's codec table by
// Kani, group cp437, all 256 bytes); a byte string decodes byte by byte (`Vec<u8>::from_cp437` is proved to do that in unit U14)
pub uninterp spec fn cp437_char(b: u8) -> char;
pub open spec fn cp437(b: Seq<u8>) -> Seq<char> { Seq::new(b.len(), |i: int| cp437_char(b[i])) }
pub broadcast axiom fn axiom_utf8_lossy_inverse(s: Seq<char>)
    ensures #[trigger] utf8_lossy(utf8(s)) == s;
pub assume_specification [String::as_bytes] (s: &String) -> (r: &[u8])
    ensures r@ == utf8(s@);
// TRUSTED: a String's UTF-8 encoding is at most isize::MAX bytes long (it lives in a Vec<u8>)
#[verifier::external_body]
pub proof fn axiom_utf8_len(s: Seq<char>)
    ensures utf8(s).len() <= 0x7fff_ffff_ffff_ffff
{ }
// T7x (add_directory): `s.chars().last()` and `s + "/"` -- ASSUMED std String semantics
#[verifier::external_body]
pub fn shim_str_last_char(s: &String) -> (r: Option<char>)
    ensures (s@.len() == 0 ==> r is None), (s@.len() > 0 ==> r == Some(s@.last()))
{ s.chars().last() }
#[verifier::external_body]
pub fn shim_string_append_slash(s: String) -> (r: String)
    ensures r@ == s@.push('/')
{ s + "/" }
#[verifier::external_body]
pub fn shim_str_to_owned(s: &str) -> (r: String) ensures r@ == s@ { s.to_owned() }
// T7x (ZipFile::is_dir): `s.chars().rev().next()` -- ASSUMED std str semantics (the last char, if any)
#[verifier::external_body]
pub fn shim_str_last_char_s(s: &str) -> (r: Option<char>)
    ensures (s@.len() == 0 ==> r is None), (s@.len() > 0 ==> r == Some(s@.last()))
{ s.chars().rev().next() }
// ASSUMED: Option::map_or applies the closure to the payload, or yields the default
pub assume_specification<T, U, F: FnOnce(T) -> U> [Option::<T>::map_or] (o: Option<T>, default: U, f: F) -> (r: U)
    requires o matches Some(x) ==> f.requires((x,)),
    ensures o is None ==> r == default, o matches Some(x) ==> f.ensures((x,), r);
// TRUSTED (C19 round trip of ASCII names): the UTF-8 encoding of an all-ASCII string is its characters as bytes (RFC 3629),
// and CP437 is the identity on bytes below 0x80 (decided for `to_char` by Kani: cp437 group, to_char_table, all 256 bytes;
// the per-byte-map shape of from_cp437 is the bounded Kani stand-in)
pub broadcast axiom fn axiom_utf8_ascii(s: Seq<char>)
    requires forall|i: int| 0 <= i < s.len() ==> (s[i] as u32) < 128,
    ensures (#[trigger] utf8(s)).len() == s.len(), forall|i: int| 0 <= i < s.len() ==> utf8(s)[i] == s[i] as u8;
pub axiom fn axiom_cp437_char_ascii(b: u8)
    requires b < 0x80,
    ensures cp437_char(b) == b as char;
pub broadcast proof fn axiom_cp437_ascii(b: Seq<u8>)
    requires forall|i: int| 0 <= i < b.len() ==> b[i] < 0x80,
    ensures (#[trigger] cp437(b)).len() == b.len(), forall|i: int| 0 <= i < b.len() ==> cp437(b)[i] == b[i] as char
{
    assert forall|i: int| 0 <= i < b.len() implies cp437(b)[i] == b[i] as char by { axiom_cp437_char_ascii(b[i]); }
}
// TRUSTED (std): strict UTF-8 conversion and the byte views of strings - present so that code which swaps the lossy decoder
// for these is decided rather than rejected as unsupported
#[verifier::external_type_specification]
#[verifier::external_body]
pub struct ExFromUtf8Error(std::string::FromUtf8Error);
pub uninterp spec fn utf8_err_bytes(e: std::string::FromUtf8Error) -> Seq<u8>;
pub assume_specification [String::from_utf8] (v: Vec<u8>) -> (r: Result<String, std::string::FromUtf8Error>)
    ensures r matches Ok(s) ==> utf8(s@) == v@, r matches Err(e) ==> utf8_err_bytes(e) == v@ && forall|s: Seq<char>| utf8(s) != v@;
pub assume_specification [std::string::FromUtf8Error::into_bytes] (e: std::string::FromUtf8Error) -> (r: Vec<u8>)
    ensures r@ == utf8_err_bytes(e);
pub assume_specification [String::into_bytes] (s: String) -> (r: Vec<u8>)
    ensures r@ == utf8(s@);
pub assume_specification [<[u8]>::is_ascii] (s: &[u8]) -> (b: bool)
    ensures b == (forall|i: int| 0 <= i < s@.len() ==> s@[i] < 128);
// TRUSTED (std): strict UTF-8 validation of a byte slice (same relation as String::from_utf8)
#[verifier::external_type_specification]
#[verifier::external_body]
pub struct ExUtf8Error(std::str::Utf8Error);
pub assume_specification<'a> [std::str::from_utf8] (v: &'a [u8]) -> (r: Result<&'a str, std::str::Utf8Error>)
    ensures r matches Ok(s) ==> utf8(s@) == v@, r is Err ==> forall|s: Seq<char>| utf8(s) != v@;

// `s.chars().count()`: made callable with NOTHING assumed about the result (no ensures clause), so that code which
// starts to use a character count where a byte length is required is decided (its contract fails) instead of
// stopping the unit with "not supported".
pub assume_specification<'a>[ core::str::Chars::<'a>::count ](it: core::str::Chars<'a>) -> (n: usize);
