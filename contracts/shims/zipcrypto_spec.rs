// ===========================================================================
// ZipCrypto (APPNOTE 6.1) at stream level.
// TRUSTED here: the byte step.  `zc_update` / `zc_stream` / `zc_crc32` are UNINTERPRETED in this unit; that the
// real `ZipCryptoKeys::{update, stream_byte, crc32}` compute the APPNOTE formulas is what the Kani group `zipcrypto`
// proves on the real code (full (u32,u32,u32,u8) domain).  Everything below the dashed line is defined and proved.
// ===========================================================================
// std::num::Wrapping<T> (`pub struct Wrapping<T>(pub T)`) made known to Verus as a type
#[verifier::reject_recursive_types(T)]
#[verifier::external_type_specification]
pub struct ExWrapping<T>(core::num::Wrapping<T>);
// the `.0` of a Wrapping<u32> (Verus cannot look into the external type)
pub uninterp spec fn w32(w: core::num::Wrapping<u32>) -> u32;

// the three 32-bit keys
pub struct Keys { pub k0: u32, pub k1: u32, pub k2: u32 }
// update_keys(k, b) of the appnote
pub uninterp spec fn zc_update(k: Keys, b: u8) -> Keys;
// decrypt_byte() of the appnote: the key-stream byte of state k
pub uninterp spec fn zc_stream(k: Keys) -> u8;
// one step of the reflected CRC-32 used inside update_keys
pub uninterp spec fn zc_crc32(crc: u32, b: u8) -> u32;

// --------------------------------------------------------------------------- defined
// initial keys of the appnote
pub open spec fn zc_init() -> Keys { Keys { k0: 0x12345678, k1: 0x23456789, k2: 0x34567890 } }
// keys after absorbing the PLAINTEXT bytes s (password bytes at key set-up, plaintext afterwards)
pub open spec fn zc_absorb(k: Keys, s: Seq<u8>) -> Keys
    decreases s.len()
{
    if s.len() == 0 { k } else { zc_update(zc_absorb(k, s.drop_last()), s.last()) }
}
// plaintext of ciphertext c under starting keys k
pub open spec fn zc_dec(k: Keys, c: Seq<u8>) -> Seq<u8>
    decreases c.len()
{
    if c.len() == 0 { Seq::empty() } else {
        let pp = zc_dec(k, c.drop_last());
        pp.push(zc_stream(zc_absorb(k, pp)) ^ c.last())
    }
}
// ciphertext of plaintext p under starting keys k
pub open spec fn zc_enc(k: Keys, p: Seq<u8>) -> Seq<u8>
    decreases p.len()
{
    if p.len() == 0 { Seq::empty() } else {
        zc_enc(k, p.drop_last()).push(zc_stream(zc_absorb(k, p.drop_last())) ^ p.last())
    }
}

pub proof fn lemma_zc_dec_len(k: Keys, c: Seq<u8>)
    ensures zc_dec(k, c).len() == c.len()
    decreases c.len()
{
    if c.len() > 0 { lemma_zc_dec_len(k, c.drop_last()); }
}
pub proof fn lemma_zc_enc_len(k: Keys, p: Seq<u8>)
    ensures zc_enc(k, p).len() == p.len()
    decreases p.len()
{
    if p.len() > 0 { lemma_zc_enc_len(k, p.drop_last()); }
}
pub proof fn lemma_zc_absorb_concat(k: Keys, a: Seq<u8>, b: Seq<u8>)
    ensures zc_absorb(k, a + b) == zc_absorb(zc_absorb(k, a), b)
    decreases b.len()
{
    if b.len() == 0 {
        assert(a + b =~= a);
    } else {
        lemma_zc_absorb_concat(k, a, b.drop_last());
        assert((a + b).drop_last() =~= a + b.drop_last());
        assert((a + b).last() == b.last());
    }
}
// C09: decrypting a ++ b in one go equals decrypting a, then b with the keys left behind by a -- so the plaintext and
// the final keys do not depend on how the ciphertext was cut into reads
pub proof fn lemma_zc_dec_concat(k: Keys, a: Seq<u8>, b: Seq<u8>)
    ensures
        zc_dec(k, a + b) == zc_dec(k, a) + zc_dec(zc_absorb(k, zc_dec(k, a)), b),
        zc_absorb(k, zc_dec(k, a + b)) == zc_absorb(zc_absorb(k, zc_dec(k, a)), zc_dec(zc_absorb(k, zc_dec(k, a)), b)),
    decreases b.len()
{
    let k1 = zc_absorb(k, zc_dec(k, a));
    if b.len() == 0 {
        assert(a + b =~= a);
        assert(zc_dec(k, a) + zc_dec(k1, b) =~= zc_dec(k, a));
    } else {
        let b0 = b.drop_last();
        lemma_zc_dec_concat(k, a, b0);
        assert((a + b).drop_last() =~= a + b0);
        assert((a + b).last() == b.last());
        let pp = zc_dec(k, a + b0);
        assert(pp == zc_dec(k, a) + zc_dec(k1, b0));
        assert(zc_absorb(k, pp) == zc_absorb(k1, zc_dec(k1, b0)));
        assert(zc_dec(k, a + b) == pp.push(zc_stream(zc_absorb(k, pp)) ^ b.last()));
        assert(zc_dec(k1, b) == zc_dec(k1, b0).push(zc_stream(zc_absorb(k1, zc_dec(k1, b0))) ^ b.last()));
        assert(zc_dec(k, a + b) =~= zc_dec(k, a) + zc_dec(k1, b));
        lemma_zc_absorb_concat(k, zc_dec(k, a), zc_dec(k1, b));
    }
}
// C15: with the same starting keys (= the same password) decryption undoes encryption, and both sides end with the same keys
// @props: C15 C01 -- ZipCrypto stream decryption inverts encryption for every key state and plaintext
pub proof fn lemma_zc_dec_enc(k: Keys, p: Seq<u8>)
    ensures zc_dec(k, zc_enc(k, p)) == p
    decreases p.len()
{
    if p.len() == 0 {
        assert(zc_dec(k, zc_enc(k, p)) =~= p);
    } else {
        let p0 = p.drop_last();
        lemma_zc_dec_enc(k, p0);
        lemma_zc_enc_len(k, p0);
        let c = zc_enc(k, p);
        let s = zc_stream(zc_absorb(k, p0));
        assert(c == zc_enc(k, p0).push(s ^ p.last()));
        assert(c.drop_last() =~= zc_enc(k, p0));
        assert(c.last() == s ^ p.last());
        let x = p.last();
        assert(s ^ (s ^ x) == x) by(bit_vector);
        assert(zc_dec(k, c) == p0.push(s ^ c.last()));
        assert(p0.push(x) =~= p);
    }
}
