// TRUSTED (T7x, file_name_sanitized): the std string operations the sanitiser uses, over the Seq<char> view.
// `byte_off` (UTF-8 byte offset of a char index) is uninterpreted: find() hands out a byte offset and slicing takes it back.
pub uninterp spec fn byte_off(s: Seq<char>, k: int) -> int;
pub open spec fn first_at(s: Seq<char>, c: char, k: int) -> bool { 0 <= k < s.len() && s[k] == c && forall|j: int| 0 <= j < k ==> s[j] != c }
// ASSUMED: str::find(char) = byte offset of the first occurrence
#[verifier::external_body]
pub fn shim_str_find_char(s: &String, c: char) -> (r: Option<usize>)
    ensures r is None <==> !s@.contains(c),
            r matches Some(i) ==> exists|k: int| first_at(s@, c, k) && i as int == byte_off(s@, k),
{ s.find(c) }
// ASSUMED: &s[0..i] at a char boundary = the chars before it
#[verifier::external_body]
pub fn shim_str_prefix(s: &String, i: usize) -> (r: &str)
    requires exists|k: int| 0 <= k <= s@.len() && i as int == byte_off(s@, k),
    ensures forall|k: int| 0 <= k <= s@.len() && i as int == byte_off(s@, k) ==> r@ == s@.subrange(0, k),
{ &s[0..i] }
// ASSUMED: ToString for str / String / char
pub trait VerifToString { spec fn g_chars(&self) -> Seq<char>; fn verif_to_string(&self) -> (r: String) ensures r@ == self.g_chars(); }
impl VerifToString for str { open spec fn g_chars(&self) -> Seq<char> { self@ } #[verifier::external_body] fn verif_to_string(&self) -> (r: String) { self.to_string() } }
impl VerifToString for String { open spec fn g_chars(&self) -> Seq<char> { self@ } #[verifier::external_body] fn verif_to_string(&self) -> (r: String) { self.to_string() } }
impl VerifToString for char { open spec fn g_chars(&self) -> Seq<char> { seq![*self] } #[verifier::external_body] fn verif_to_string(&self) -> (r: String) { self.to_string() } }
pub open spec fn char_replaced(s: Seq<char>, a: char, b: char) -> Seq<char> { s.map_values(|c: char| if c == a { b } else { c }) }
// ASSUMED: str::replace with one-character pattern and replacement maps that character
#[verifier::external_body]
pub fn shim_str_replace(s: &String, from: &String, to: &String) -> (r: String)
    requires from@.len() == 1, to@.len() == 1,
    ensures r@ == char_replaced(s@, from@[0], to@[0]),
{ s.replace(from.as_str(), to.as_str()) }
// ASSUMED: &String coerces to &str with the same characters
#[verifier::external_body]
pub fn shim_string_ref_as_str<'b>(s: &'b String) -> (r: &'b str) ensures r@ == s@ { s.as_str() }
