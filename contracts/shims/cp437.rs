// ASSUMED in Verus (iterator adapters): `Vec<u8>::from_cp437` maps every byte through the CP437
// table.  Decided by Kani group `cp437` (to_char: complete over all 256 bytes; from_cp437: bounded).
pub trait FromCp437 { type Target; fn from_cp437(self) -> Self::Target; }
impl FromCp437 for Vec<u8> {
    type Target = String;
    #[verifier::external_body]
    fn from_cp437(self) -> (r: String) ensures r@ == cp437(self@) { unimplemented!() }
}
// T7 `utf8_lossy`: `String::from_utf8_lossy(&X).into_owned()`
#[verifier::external_body]
pub fn shim_utf8_lossy(b: &Vec<u8>) -> (r: String) ensures r@ == utf8_lossy(b@) { unimplemented!() }
