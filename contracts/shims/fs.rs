// ===========================================================================
// TRUSTED (DESIGN.md section 5 C07): the file system as an EFFECT INTERFACE WITH PRECONDITIONS.
// There is no model of the directory tree.  Every effectful call requires that its path argument is *confined*:
// the extraction root joined with a component list that is `safe` (C06), or the parent of such a path.
// Verus has to discharge that precondition at every call site in extract(); a new effectful call that is not in
// this shim set does not compile (exit 2), so nothing can slip through silently.
// The extraction root is an uninterpreted constant; extract() is verified for the call whose `directory`
// argument denotes it (i.e. for every root).
// ===========================================================================
pub mod pathx {
    use vstd::prelude::*;
    use super::path::{Path, PathBuf, Component};
    // abstract value of a path (what it denotes after lexical joining); uninterpreted
    pub struct PathV { pub id: int }
    pub uninterp spec fn pview(p: &Path) -> PathV;
    pub uninterp spec fn pbview(p: &PathBuf) -> PathV;
    pub uninterp spec fn joined(base: PathV, rel: PathV) -> PathV;
    pub uninterp spec fn is_parent_of(parent: PathV, child: PathV) -> bool;
    pub uninterp spec fn extraction_root() -> PathV;
    pub open spec fn confined(v: PathV) -> bool {
        exists|rel: &Path| super::safe(super::path::spec_components(rel)) && v == #[trigger] joined(extraction_root(), pview(rel))
    }
    // what the effectful calls accept: a confined path, or the directory a confined path lives in
    pub open spec fn may_touch(v: PathV) -> bool {
        confined(v) || exists|c: PathV| #[trigger] confined(c) && is_parent_of(v, c)
    }
    // std: `join<P: AsRef<Path>>`; a string argument denotes Path::new(s) (AsRef<Path> for str/String), a path itself
    pub trait AsPathArg: Sized { spec fn arg_v(&self) -> PathV; }
    impl<'a> AsPathArg for &'a Path { open spec fn arg_v(&self) -> PathV { pview(*self) } }
    impl AsPathArg for PathBuf { open spec fn arg_v(&self) -> PathV { pbview(self) } }
    impl<'a> AsPathArg for &'a PathBuf { open spec fn arg_v(&self) -> PathV { pbview(*self) } }
    impl<'a> AsPathArg for &'a str { open spec fn arg_v(&self) -> PathV { pview(super::path::spec_path_of((*self)@)) } }
    impl<'a> AsPathArg for &'a String { open spec fn arg_v(&self) -> PathV { pview(super::path::spec_path_of((*self)@)) } }
    impl AsPathArg for String { open spec fn arg_v(&self) -> PathV { pview(super::path::spec_path_of(self@)) } }
    impl Path {
        #[verifier::external_body]
        pub fn join<P: AsPathArg>(&self, rel: P) -> (r: PathBuf) ensures pbview(&r) == joined(pview(self), rel.arg_v()) { unimplemented!() }
        #[verifier::external_body]
        pub fn parent(&self) -> (r: Option<&Path>) ensures r matches Some(pp) ==> is_parent_of(pview(pp), pview(self)) { unimplemented!() }
        #[verifier::external_body]
        pub fn exists(&self) -> bool { unimplemented!() }
    }
    impl PathBuf {
        #[verifier::external_body]
        pub fn as_path(&self) -> (r: &Path) ensures pview(r) == pbview(self) { unimplemented!() }
        #[verifier::external_body]
        pub fn parent(&self) -> (r: Option<&Path>) ensures r matches Some(pp) ==> is_parent_of(pview(pp), pbview(self)) { unimplemented!() }
    }
    // T7x: `directory.as_ref()` (P: AsRef<Path>) and `&outpath` / `outpath` where a &Path is expected
    pub uninterp spec fn as_path_v<P>(p: &P) -> PathV;
    #[verifier::external_body]
    pub fn shim_as_ref_path<P>(p: &P) -> (r: &Path) ensures pview(r) == as_path_v(p) { unimplemented!() }
}
pub mod fs {
    use vstd::prelude::*;
    use super::path::{Path, PathBuf};
    use super::pathx::*;
    use super::io;
    pub struct File { pub fd: int }
    pub struct Permissions { pub mode: u32 }
    impl Permissions {
        pub fn from_mode(mode: u32) -> (r: Permissions) ensures r.mode == mode { Permissions { mode } }
    }
    #[verifier::external_body]
    pub fn create_dir_all(p: &Path) -> (r: io::Result<()>) requires may_touch(pview(p)) { unimplemented!() }
    impl File {
        #[verifier::external_body]
        pub fn create(p: &Path) -> (r: io::Result<File>) requires confined(pview(p)) { unimplemented!() }
    }
    #[verifier::external_body]
    pub fn set_permissions(p: &Path, perm: Permissions) -> (r: io::Result<()>) requires confined(pview(p)) { unimplemented!() }
}
impl Dev for fs::File {
    open spec fn g_dev(&self) -> bool { false }
    open spec fn g_bytes(&self) -> Seq<u8> { Seq::empty() }
    open spec fn g_pos(&self) -> int { 0 }
    open spec fn g_fault(&self) -> bool { false }
}
impl Write for fs::File {
    #[verifier::external_body] fn write(&mut self, buf: &[u8]) -> (r: io::Result<usize>) { unimplemented!() }
    #[verifier::external_body] fn flush(&mut self) -> (r: io::Result<()>) { unimplemented!() }
}
#[verifier::external_body]
pub fn shim_str_ends_with_slash(s: &str) -> (b: bool) ensures b == (s@.len() > 0 && s@.last() == '/') { s.ends_with('/') }
