// ZipError / ZipResult: extracted verbatim from src/result.rs; the `From`
// conversion used by `?` gets its vstd spec here (ghost only).
//@item src/result.rs | enum ZipError ; strip_derive
//@item src/result.rs | type ZipResult
//@item src/result.rs | struct InvalidPassword ; keep_debug
impl vstd::std_specs::convert::FromSpecImpl<io::Error> for ZipError {
    open spec fn obeys_from_spec() -> bool { true }
    open spec fn from_spec(v: io::Error) -> Self { ZipError::Io(v) }
}
//@impl src/result.rs | impl From<io::Error> for ZipError
impl From<io::Error> for ZipError {
//@fn zip_error_from
//@| fn: src/result.rs | impl From<io::Error> for ZipError | fn from
//@end
}
// TRUSTED (language semantics of `?`): an `io::Error` leaving a function that returns ZipResult through `?` is converted by
// the crate's own `From` impl above (whose body is verified against from_spec).  vstd leaves the conversion relation of `?`
// (`spec_from`) uninterpreted for user impls; this axiom ties it to that impl, so that error KINDS are known at call sites.
pub mod qm_axiom {
    use vstd::prelude::*;
    use super::{io, ZipError};
    pub broadcast axiom fn axiom_question_mark_converts_io_error(v: io::Error, ret: ZipError)
        ensures #[trigger] vstd::std_specs::control_flow::spec_from::<ZipError, io::Error>(v, ret) ==> ret == ZipError::Io(v);
}
broadcast use qm_axiom::axiom_question_mark_converts_io_error;
