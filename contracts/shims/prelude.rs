// ZipError / ZipResult: extracted verbatim from src/result.rs; the `From`
// conversion used by `?` gets its vstd spec here (ghost only).
//@item src/result.rs | enum ZipError ; strip_derive
//@item src/result.rs | type ZipResult
//@item src/result.rs | struct InvalidPassword ; keep_debug
impl vstd::std_specs::convert::FromSpecImpl<io::Error> for ZipError {
    open spec fn obeys_from_spec() -> bool { true }
    open spec fn from_spec(v: io::Error) -> Self { ZipError::Io(v) }
}
//@impl src/result.rs | impl From<io::Error> for ZipError
impl From<io::Error> for ZipError {
//@fn zip_error_from
//@| fn: src/result.rs | impl From<io::Error> for ZipError | fn from
//@end
}
