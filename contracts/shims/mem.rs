// TRUSTED: std::mem::replace moves `src` in and hands the previous value out
pub assume_specification<T> [std::mem::replace] (dest: &mut T, src: T) -> (r: T)
    ensures *final(dest) == src, r == *old(dest);
