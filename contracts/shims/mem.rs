// TRUSTED: std::mem::replace moves `src` in and hands the previous value out
pub assume_specification<T> [std::mem::replace] (dest: &mut T, src: T) -> (r: T)
    ensures *final(dest) == src, r == *old(dest);
// TRUSTED: std::mem::take moves the value out and leaves `T::default()` behind
pub assume_specification<T: Default> [std::mem::take] (dest: &mut T) -> (r: T)
    ensures r == *old(dest), call_ensures(T::default, (), *final(dest));
