// TRUSTED: crc32fast::Hasher accumulates the bytes it is fed and `finalize`
// returns crc32 of them.  `crc32` is uninterpreted: C04/C01 hold relative to
// crc32fast computing CRC-32.
pub uninterp spec fn crc32(s: Seq<u8>) -> u32;
#[verifier::external_body]
pub struct Hasher { h: u32 }
impl Hasher {
    pub uninterp spec fn view(&self) -> Seq<u8>;
    #[verifier::external_body] pub fn new() -> (r: Hasher) ensures r@ == Seq::<u8>::empty() { unimplemented!() }
    #[verifier::external_body] pub fn update(&mut self, buf: &[u8]) ensures final(self)@ == old(self)@ + buf@ { unimplemented!() }
    #[verifier::external_body] pub fn finalize(self) -> (r: u32) ensures r == crc32(self@) { unimplemented!() }
}
impl Clone for Hasher { #[verifier::external_body] fn clone(&self) -> (r: Hasher) ensures r@ == self@ { unimplemented!() } }
impl Default for Hasher { #[verifier::external_body] fn default() -> (r: Hasher) ensures r@ == Seq::<u8>::empty() { unimplemented!() } }
