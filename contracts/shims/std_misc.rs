// TRUSTED: small pieces of std the extracted types mention.
pub mod atomic {
    use vstd::prelude::*;
    // a relaxed atomic used as a plain cell; no claim about concurrent use (C20 is not applicable)
    #[verifier::external_body]
    pub struct AtomicU64 { v: u64 }
    pub enum Ordering { Relaxed }
    impl AtomicU64 {
        // the value as seen through exclusive access (new / get_mut); load/store through `&self` are left
        // unspecified (interior mutability; C20 is not applicable)
        pub uninterp spec fn g_val(&self) -> u64;
        #[verifier::external_body] pub fn new(v: u64) -> (r: AtomicU64) ensures r.g_val() == v { unimplemented!() }
        // ASSUMED: used as a plain cell (no store between the exclusive write and this load on the writer side)
        #[verifier::external_body] pub fn load(&self, o: Ordering) -> (r: u64) ensures r == self.g_val() { unimplemented!() }
        #[verifier::external_body] pub fn store(&self, v: u64, o: Ordering) { unimplemented!() }
        #[verifier::external_body] pub fn get_mut(&mut self) -> (r: &mut u64)
            ensures *r == old(self).g_val(), final(self).g_val() == *final(r) { unimplemented!() }
    }
}

// TRUSTED: a Vec never holds more than isize::MAX elements (alloc guarantees it; vstd only knows usize::MAX)
#[verifier::external_body]
pub proof fn axiom_vec_len<T>(v: &Vec<T>)
    ensures v@.len() <= 0x7fff_ffff_ffff_ffff
{ }

// TRUSTED: String's Hash and Eq implementations are deterministic and agree (vstd's hash-table key model)
#[verifier::external_body]
pub proof fn axiom_string_key_model() ensures vstd::std_specs::hash::obeys_key_model::<String>() {}

// TRUSTED: a slice is at most isize::MAX elements long
#[verifier::external_body]
pub proof fn axiom_slice_len<T>(v: &[T])
    ensures v@.len() <= 0x7fff_ffff_ffff_ffff
{ }

// TRUSTED (std): `String: Borrow<str>` hands out the string's own characters, hashing and comparing like the String does.
// So looking a `&str` up in a map keyed by String finds the key with the same characters; and a String IS its characters.
pub broadcast axiom fn axiom_str_borrowed_key_contains<V>(m: Map<String, V>, k: &str)
    ensures #[trigger] vstd::std_specs::hash::contains_borrowed_key(m, k) <==> (exists|s: String| #[trigger] m.contains_key(s) && s@ == k@);
pub broadcast axiom fn axiom_str_borrowed_key_maps<V>(m: Map<String, V>, k: &str, v: V)
    ensures #[trigger] vstd::std_specs::hash::maps_borrowed_key_to_value(m, k, v) <==> (exists|s: String| #[trigger] m.contains_key(s) && s@ == k@ && m[s] == v);
pub broadcast axiom fn axiom_string_is_its_characters(a: String, b: String)
    ensures #[trigger] a@ == #[trigger] b@ ==> a == b;

// TRUSTED (std): `<[T]>::binary_search`.  Complete for a slice that is sorted by `Ord` (then `Err` means "not present");
// for an unsorted slice std leaves the result unspecified, so only "an `Ok` index holds an equal element" is known.
// (Present so that a change from a linear scan to a binary search is decided: right on a sorted table, wrong on an unsorted one.)
pub open spec fn sorted_by_cmp<T: Ord>(s: Seq<T>) -> bool {
    forall|i: int, j: int| 0 <= i < j < s.len() ==> vstd::std_specs::cmp::OrdSpec::cmp_spec(&s[i], &s[j]) is Less || vstd::std_specs::cmp::OrdSpec::cmp_spec(&s[i], &s[j]) is Equal
}
pub assume_specification<T: Ord> [<[T]>::binary_search] (s: &[T], x: &T) -> (r: Result<usize, usize>)
    ensures
        r matches Ok(i) ==> i < s@.len() && vstd::std_specs::cmp::OrdSpec::cmp_spec(&s@[i as int], x) is Equal,
        r matches Err(i) ==> i <= s@.len(),
        <T as vstd::std_specs::cmp::OrdSpec>::obeys_cmp_spec() && sorted_by_cmp(s@) ==> (r is Err ==> forall|i: int| 0 <= i < s@.len() ==> !(vstd::std_specs::cmp::OrdSpec::cmp_spec(&(#[trigger] s@[i]), x) is Equal));

