// TRANSCRIPTION of std's default `Write::write_all` (library/std/src/io/mod.rs) specialised to ZipWriter, minus the retry on
// ErrorKind::Interrupted (the I/O model has no such kind).  Its body is VERIFIED against ZipWriter::write's proved
// contract (zw_write), so the effect of write_all is derived, not assumed; only the transcription itself is trusted.
fn shim_zw_write_all<W: Write + io::Seek>(w: &mut ZipWriter<W>, buf: &[u8]) -> (r: io::Result<()>)
    requires zw_ready(old(w)), old(w).stats.bytes_written + buf@.len() <= 0x7fff_ffff_ffff_ffff,
    ensures
        zw_wf(final(w)) && (zw_room(final(w)) || zw_faulted(final(w)) || final(w).inner is Closed),
        final(w).files@.len() == old(w).files@.len(),
        old(w).files@.len() > 0 ==> entry_identity_kept(old(w).files@.last(), final(w).files@.last()),
        r is Ok && zw_clean(old(w)) ==> zw_clean(final(w)),
        forall|i: int| 0 <= i < old(w).files@.len() - 1 ==> final(w).files@[i] == old(w).files@[i],
        final(w).writing_to_file == old(w).writing_to_file && final(w).writing_to_extra_field == old(w).writing_to_extra_field
            && final(w).writing_to_central_extra_field_only == old(w).writing_to_central_extra_field_only
            && final(w).writing_raw == old(w).writing_raw && final(w).comment == old(w).comment,
        (!old(w).writing_to_file || old(w).inner is Closed) && buf@.len() > 0 ==> r is Err,
        // extra-data mode: everything is collected verbatim, nothing else moves
        old(w).writing_to_file && old(w).writing_to_extra_field && !(old(w).inner is Closed) ==> r is Ok
            && final(w).files@.last().extra_field@ == old(w).files@.last().extra_field@ + buf@
            && final(w).files@.last().data_start == old(w).files@.last().data_start
            && final(w).files@.last().header_start == old(w).files@.last().header_start
            && final(w).files@.last().large_file == old(w).files@.last().large_file
            && final(w).inner == old(w).inner && final(w).stats.bytes_written == old(w).stats.bytes_written
            && final(w).stats.hasher@ == old(w).stats.hasher@ && final(w).stats.start == old(w).stats.start,
        zw_frozen_kept(old(w), final(w)),
        // data mode: the entry records are not touched; on success the whole buffer was accounted
        !old(w).writing_to_extra_field ==> final(w).files@ == old(w).files@,
        r is Ok && !old(w).writing_to_extra_field ==> final(w).stats.hasher@ == old(w).stats.hasher@ + buf@
            && final(w).stats.bytes_written == old(w).stats.bytes_written + buf@.len(),
        // ... and, for a stored entry on a device sink, every byte of the buffer went to the sink, in order, at its position
        r is Ok && old(w).writing_to_file && !old(w).writing_to_extra_field && gzw_plain(old(w).inner) ==> gzw_plain(final(w).inner)
            && (gzw_plain_sink(old(w).inner).g_dev() ==> wr_n(&gzw_plain_sink(old(w).inner), &gzw_plain_sink(final(w).inner), true, buf@)),
        r is Ok ==> gzw_method(final(w).inner) == gzw_method(old(w).inner),
        // C01/C02/C09: the content statement of the open entry survives any number of partial writes
        zw_data_ok(old(w)) && (r is Ok || zw_err_keeps_content(old(w))) ==> zw_data_ok(final(w)),
{
    let ghost all = buf@;
    let mut buf = buf;
    proof {
        axiom_slice_len(buf);
        assert(all.subrange(0, 0) =~= Seq::<u8>::empty());
        if gzw_plain(w.inner) { lemma_put_empty_any(gzw_plain_sink(w.inner).g_bytes(), gzw_plain_sink(w.inner).g_pos()); }
    }
    while !buf.is_empty()
        invariant
            zw_ready(w), zw_room(w) || zw_faulted(w) || w.inner is Closed,
            buf@.len() <= all.len(), buf@ == all.subrange(all.len() - buf@.len(), all.len() as int),
            w.files@.len() == old(w).files@.len(),
            old(w).files@.len() > 0 ==> entry_identity_kept(old(w).files@.last(), w.files@.last()),
            zw_clean(old(w)) ==> zw_clean(w),
            forall|i: int| 0 <= i < old(w).files@.len() - 1 ==> w.files@[i] == old(w).files@[i],
            w.writing_to_file == old(w).writing_to_file && w.writing_to_extra_field == old(w).writing_to_extra_field
                && w.writing_to_central_extra_field_only == old(w).writing_to_central_extra_field_only
                && w.writing_raw == old(w).writing_raw && w.comment == old(w).comment,
            old(w).writing_to_file && old(w).writing_to_extra_field && !(old(w).inner is Closed) ==>
                w.files@.last().extra_field@ == old(w).files@.last().extra_field@ + all.subrange(0, all.len() - buf@.len())
                && w.files@.last().data_start == old(w).files@.last().data_start
                && w.files@.last().header_start == old(w).files@.last().header_start
                && w.files@.last().large_file == old(w).files@.last().large_file
                && w.inner == old(w).inner && w.stats.bytes_written == old(w).stats.bytes_written
                && w.stats.hasher@ == old(w).stats.hasher@ && w.stats.start == old(w).stats.start,
            !old(w).writing_to_extra_field ==> w.stats.hasher@ == old(w).stats.hasher@ + all.subrange(0, all.len() - buf@.len())
                && w.stats.bytes_written == old(w).stats.bytes_written + (all.len() - buf@.len()),
            old(w).stats.bytes_written + all.len() <= 0x7fff_ffff_ffff_ffff,
            !old(w).writing_to_extra_field ==> w.files@ == old(w).files@, zw_frozen_kept(old(w), w),
            old(w).inner is Closed ==> w.inner is Closed,
            gzw_method(w.inner) == gzw_method(old(w).inner), zw_wf(old(w)),
            old(w).writing_to_file && !old(w).writing_to_extra_field && gzw_plain(old(w).inner) ==> gzw_plain(w.inner)
                && (gzw_plain_sink(old(w).inner).g_dev() ==> wr_n(&gzw_plain_sink(old(w).inner), &gzw_plain_sink(w.inner), true, all.subrange(0, all.len() - buf@.len()))),
            (!old(w).writing_to_file || old(w).inner is Closed) ==> buf@.len() == all.len(),
            zw_data_ok(old(w)) ==> zw_data_ok(w),
        decreases buf@.len(),
    {
        let ghost before = buf@;
        let ghost w_before = *w;
        match w.write(buf) {
            Ok(0) => { return Err(io::Error::new(io::ErrorKind::Other, ())); }
            Ok(n) => {
                buf = &buf[n..];
                proof {
                    let k = all.len() - before.len();
                    if old(w).writing_to_file && !old(w).writing_to_extra_field && gzw_plain(old(w).inner) && gzw_plain_sink(old(w).inner).g_dev() {
                        assert(maybe_ok(gzw_sink(old(w).inner)));
                        assert(dev_ok(&gzw_plain_sink(old(w).inner)));
                        lemma_wr_n_compose(&gzw_plain_sink(old(w).inner), &gzw_plain_sink(w_before.inner), &gzw_plain_sink(w.inner),
                                           all.subrange(0, k), before.subrange(0, n as int));
                    }
                    assert(all.subrange(0, k + n) =~= all.subrange(0, k) + before.subrange(0, n as int));
                    assert(buf@ =~= all.subrange(all.len() - buf@.len(), all.len() as int));
                }
            }
            Err(e) => { return Err(e); }
        }
    }
    proof { assert(all.subrange(0, all.len() as int) =~= all); }
    Ok(())
}
// TRANSCRIPTION of byteorder's WriteBytesExt::write_u16::<LittleEndian> (`let mut buf = [0; 2]; LittleEndian::write_u16(&mut buf, n);
// self.write_all(&buf)`), verified against the write_all transcription above; ASSUMED: the two bytes are le16(v).
#[verifier::external_body]
fn shim_le16_array(v: u16) -> (r: [u8; 2]) ensures r@ == le16(v) { v.to_le_bytes() }
fn shim_zw_write_u16<W: Write + io::Seek>(w: &mut ZipWriter<W>, v: u16) -> (r: io::Result<()>)
    requires zw_ready(old(w)), old(w).stats.bytes_written + 2 <= 0x7fff_ffff_ffff_ffff,
    ensures
        zw_wf(final(w)) && (zw_room(final(w)) || zw_faulted(final(w)) || final(w).inner is Closed),
        final(w).files@.len() == old(w).files@.len(),
        forall|i: int| 0 <= i < old(w).files@.len() - 1 ==> final(w).files@[i] == old(w).files@[i],
        zw_frozen_kept(old(w), final(w)),
        old(w).files@.len() > 0 ==> entry_identity_kept(old(w).files@.last(), final(w).files@.last()),
        r is Ok && zw_clean(old(w)) ==> zw_clean(final(w)),
        final(w).writing_to_file == old(w).writing_to_file && final(w).writing_to_extra_field == old(w).writing_to_extra_field
            && final(w).writing_to_central_extra_field_only == old(w).writing_to_central_extra_field_only
            && final(w).writing_raw == old(w).writing_raw && final(w).comment == old(w).comment,
        old(w).writing_to_file && old(w).writing_to_extra_field && !(old(w).inner is Closed) ==> r is Ok
            && final(w).files@.last().extra_field@ == old(w).files@.last().extra_field@ + le16(v)
            && final(w).files@.last().data_start == old(w).files@.last().data_start
            && final(w).files@.last().header_start == old(w).files@.last().header_start
            && final(w).files@.last().large_file == old(w).files@.last().large_file
            && final(w).inner == old(w).inner && final(w).stats.bytes_written == old(w).stats.bytes_written
            && final(w).stats.hasher@ == old(w).stats.hasher@ && final(w).stats.start == old(w).stats.start,
        zw_data_ok(old(w)) && (r is Ok || zw_err_keeps_content(old(w))) ==> zw_data_ok(final(w)),
{
    let buf = shim_le16_array(v);
    proof { broadcast use group_le_len; }
    shim_zw_write_all(w, buf.as_slice())
}
