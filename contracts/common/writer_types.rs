// shared by U7a (leaves) and U7 (state machine): writer types cut verbatim + their ghost views
// ---- types of the writer, cut verbatim
//@include shims/zipcrypto_spec.rs
pub mod zipcrypto {
use vstd::prelude::*;
use super::*;
use std::num::Wrapping;
//@item src/zipcrypto.rs | struct ZipCryptoKeys
impl ZipCryptoKeys {
    // ghost: the three keys as numbers (same view as in unit U10)
    pub open spec fn view(&self) -> Keys { Keys { k0: w32(self.key_0), k1: w32(self.key_1), k2: w32(self.key_2) } }
//@use zc_keys_derive nobody
}
//@item src/zipcrypto.rs | struct ZipCryptoWriter
// ghost: the buffering ZipCrypto writer is not a device
impl<W> Dev for ZipCryptoWriter<W> {
    open spec fn g_dev(&self) -> bool { false }
    open spec fn g_bytes(&self) -> Seq<u8> { Seq::empty() }
    open spec fn g_pos(&self) -> int { 0 }
    open spec fn g_fault(&self) -> bool { false }
}
//@impl src/zipcrypto.rs | impl<W: std::io::Write> std::io::Write for ZipCryptoWriter<W>
impl<W: Write> Write for ZipCryptoWriter<W> {   // T8 `std_io`: std::io::Write is the shim trait
//@use zcwriter_write
//@use zcwriter_flush
}
}
//@item src/write.rs | enum MaybeEncrypted
//@item src/write.rs | enum GenericZipWriter
//@item src/write.rs | struct ZipWriterStats
//@item src/write.rs | struct FileOptions

// ghost: MaybeEncrypted is the sink itself when unencrypted, a buffer otherwise
impl<W: Dev> Dev for MaybeEncrypted<W> {
    open spec fn g_dev(&self) -> bool { match self { MaybeEncrypted::Unencrypted(w) => w.g_dev(), MaybeEncrypted::Encrypted(_) => false } }
    open spec fn g_bytes(&self) -> Seq<u8> { match self { MaybeEncrypted::Unencrypted(w) => w.g_bytes(), MaybeEncrypted::Encrypted(_) => Seq::empty() } }
    open spec fn g_pos(&self) -> int { match self { MaybeEncrypted::Unencrypted(w) => w.g_pos(), MaybeEncrypted::Encrypted(_) => 0 } }
    open spec fn g_fault(&self) -> bool { match self { MaybeEncrypted::Unencrypted(w) => w.g_fault(), MaybeEncrypted::Encrypted(_) => false } }
    open spec fn g_ready(&self) -> bool { match self { MaybeEncrypted::Unencrypted(w) => w.g_ready(), MaybeEncrypted::Encrypted(_) => true } }
    // the sink below is a usable device, or a ZipCrypto buffer (with its 12-byte header slot) over one
    open spec fn g_inv(&self) -> bool {
        match self {
            MaybeEncrypted::Unencrypted(s) => dev_ok(s),
            MaybeEncrypted::Encrypted(z) => z.buffer@.len() >= 12 && dev_ok(&z.writer),
        }
    }
}
//@impl src/write.rs | impl<W: Write> Write for MaybeEncrypted<W>
impl<W: Write> Write for MaybeEncrypted<W> {
//@use maybeenc_write
//@use maybeenc_flush
}
// ---- what one `write` / `flush` on a MaybeEncrypted does (proved of the real functions in U7a: maybeenc_write / maybeenc_flush)
pub open spec fn me_write_post<W: Write>(m0: MaybeEncrypted<W>, m1: MaybeEncrypted<W>, buf: Seq<u8>, r: io::Result<usize>) -> bool {
    &&& (m0 is Unencrypted) == (m1 is Unencrypted)
    &&& (m0 is Unencrypted ==> {
            let a = m0->Unencrypted_0; let b = m1->Unencrypted_0;
            &&& dev_step(&a, &b)
            &&& (r matches Ok(n) ==> n <= buf.len())
            &&& (a.g_dev() ==> (r is Err ==> b.g_fault()))
            &&& (a.g_dev() ==> (r matches Ok(n) ==> (buf.len() > 0 ==> n > 0) && wr_n(&a, &b, true, buf.subrange(0, n as int))))
        })
    &&& (m0 is Encrypted ==> r == Ok::<usize, io::Error>(buf.len() as usize)
            && m1->Encrypted_0.buffer@ == m0->Encrypted_0.buffer@ + buf
            && m1->Encrypted_0.writer == m0->Encrypted_0.writer && m1->Encrypted_0.keys == m0->Encrypted_0.keys)
}
pub open spec fn me_flush_post<W: Write>(m0: MaybeEncrypted<W>, m1: MaybeEncrypted<W>, r: io::Result<()>) -> bool {
    &&& (m0 is Unencrypted) == (m1 is Unencrypted)
    &&& (m0 is Unencrypted ==> {
            let a = m0->Unencrypted_0; let b = m1->Unencrypted_0;
            &&& dev_step(&a, &b)
            &&& (a.g_dev() ==> (r is Err ==> b.g_fault()))
            &&& (a.g_dev() ==> (r is Ok ==> b.g_fault() == a.g_fault() && b.g_pos() == a.g_pos() && b.g_bytes() == a.g_bytes()))
        })
    &&& (m0 is Encrypted ==> r is Ok && m1 == m0)
}
// ---- GenericZipWriter: which method the installed encoder implements, and the plain-sink shape
pub open spec fn gzw_method<W: Write + io::Seek>(g: GenericZipWriter<W>) -> Option<CompressionMethod> {
    match g {
        GenericZipWriter::Closed => None,
        GenericZipWriter::Storer(_) => Some(CompressionMethod::Stored),
        GenericZipWriter::Deflater(_) => Some(CompressionMethod::Deflated),
        GenericZipWriter::Bzip2(_) => Some(CompressionMethod::Bzip2),
        GenericZipWriter::Zstd(_) => Some(CompressionMethod::Zstd),
    }
}
pub open spec fn gzw_plain<W: Write + io::Seek>(g: GenericZipWriter<W>) -> bool {
    g matches GenericZipWriter::Storer(MaybeEncrypted::Unencrypted(_))
}
pub open spec fn gzw_plain_sink<W: Write + io::Seek>(g: GenericZipWriter<W>) -> W {
    g->Storer_0->Unencrypted_0
}
// C11: has the byte sink under this writer ever reported a failure?  (the fault flag of the I/O model is monotone)
pub open spec fn me_fault<W: Write>(m: MaybeEncrypted<W>) -> bool {
    match m { MaybeEncrypted::Unencrypted(w) => w.g_fault(), MaybeEncrypted::Encrypted(z) => z.writer.g_fault() }
}
pub open spec fn gzw_fault<W: Write + io::Seek>(g: GenericZipWriter<W>) -> bool { !(g is Closed) && me_fault(gzw_sink(g)) }
// the sink the installed encoder was created over / the level it runs at / the plaintext it has accepted
pub open spec fn gzw_sink<W: Write + io::Seek>(g: GenericZipWriter<W>) -> MaybeEncrypted<W> {
    match g {
        GenericZipWriter::Closed => arbitrary(),
        GenericZipWriter::Storer(w) => w,
        GenericZipWriter::Deflater(e) => e.inner(),
        GenericZipWriter::Bzip2(e) => e.inner(),
        GenericZipWriter::Zstd(e) => e.inner(),
    }
}
pub open spec fn gzw_level<W: Write + io::Seek>(g: GenericZipWriter<W>) -> int {
    match g {
        GenericZipWriter::Closed => 0,
        GenericZipWriter::Storer(_) => 0,
        GenericZipWriter::Deflater(e) => e.g_level(),
        GenericZipWriter::Bzip2(e) => e.g_level(),
        GenericZipWriter::Zstd(e) => e.g_level(),
    }
}
pub open spec fn gzw_consumed<W: Write + io::Seek>(g: GenericZipWriter<W>) -> Seq<u8> {
    match g {
        GenericZipWriter::Closed => Seq::empty(),
        GenericZipWriter::Storer(_) => Seq::empty(),
        GenericZipWriter::Deflater(e) => e.consumed(),
        GenericZipWriter::Bzip2(e) => e.consumed(),
        GenericZipWriter::Zstd(e) => e.consumed(),
    }
}
// `bare` is what finishing the encoder of `g` hands back: the sink itself for Storer, otherwise the sink after one
// all-or-error write of the compressed stream (encoder contract, shims/encoders.rs)
pub open spec fn gzw_finished<W: Write + io::Seek>(g: GenericZipWriter<W>, bare: MaybeEncrypted<W>) -> bool {
    match g {
        GenericZipWriter::Closed => false,
        GenericZipWriter::Storer(w) => bare == w,
        GenericZipWriter::Deflater(e) => wr_n(&e.inner(), &bare, true, compress(CompressionMethod::Deflated, e.g_level(), e.consumed())),
        GenericZipWriter::Bzip2(e) => wr_n(&e.inner(), &bare, true, compress(CompressionMethod::Bzip2, e.g_level(), e.consumed())),
        GenericZipWriter::Zstd(e) => wr_n(&e.inner(), &bare, true, compress(CompressionMethod::Zstd, e.g_level(), e.consumed())),
    }
}
// What the documentation of FileOptions::compression_level promises (and property C12 demands an error outside of):
//   Deflated 0..=9 (default 6), Bzip2 1..=9 (default 6; libbz2 has no level 0, F23), Zstd: zstd's own range (default 3),
//   every other method: only `None`.  AES and Unsupported(_) cannot be written at all.
pub open spec fn level_accepted(m: CompressionMethod, level: Option<i32>) -> bool {
    match m {
        CompressionMethod::Stored => level is None,
        CompressionMethod::Deflated => (level matches Some(l) ==> 0 <= l <= 9),
        CompressionMethod::Bzip2 => (level matches Some(l) ==> 1 <= l <= 9),
        CompressionMethod::Zstd => (level matches Some(l) ==> zstd::min_level() <= l <= zstd::max_level()),
        CompressionMethod::Aes => false,
        CompressionMethod::Unsupported(_) => false,
    }
}
pub open spec fn effective_level(m: CompressionMethod, level: Option<i32>) -> int {
    match m {
        CompressionMethod::Deflated => (match level { Some(l) => l as int, None => 6 }),
        CompressionMethod::Bzip2 => (match level { Some(l) => l as int, None => 6 }),
        CompressionMethod::Zstd => (match level { Some(l) => l as int, None => 3 }),
        _ => 0,
    }
}

// ---- T8 `dyn_write`: the `&mut dyn Write` that GenericZipWriter::ref_mut hands out IS the installed writer.
// TRUSTED MODEL OF DYNAMIC DISPATCH (the only hand-written executable text in the units): calling write/flush on that
// trait object calls the variant's own write/flush.  The bodies below are verified against the variants' contracts
// (MaybeEncrypted: proved in U7a; encoders: shims/encoders.rs), so what callers learn is derived, not restated.
pub open spec fn gzw_write_post<W: Write + io::Seek>(g0: GenericZipWriter<W>, g1: GenericZipWriter<W>, buf: Seq<u8>, r: io::Result<usize>) -> bool {
    match g0 {
        GenericZipWriter::Closed => g1 is Closed && r is Err,
        GenericZipWriter::Storer(m0) => g1 matches GenericZipWriter::Storer(m1) && me_write_post(m0, m1, buf, r),
        GenericZipWriter::Deflater(e0) => g1 matches GenericZipWriter::Deflater(e1) && e1.inner() == e0.inner() && e1.g_level() == e0.g_level()
            && (r matches Ok(n) ==> n <= buf.len() && e1.consumed() == e0.consumed() + buf.subrange(0, n as int)),
        GenericZipWriter::Bzip2(e0) => g1 matches GenericZipWriter::Bzip2(e1) && e1.inner() == e0.inner() && e1.g_level() == e0.g_level()
            && (r matches Ok(n) ==> n <= buf.len() && e1.consumed() == e0.consumed() + buf.subrange(0, n as int)),
        GenericZipWriter::Zstd(e0) => g1 matches GenericZipWriter::Zstd(e1) && e1.inner() == e0.inner() && e1.g_level() == e0.g_level()
            && (r matches Ok(n) ==> n <= buf.len() && e1.consumed() == e0.consumed() + buf.subrange(0, n as int)),
    }
}
pub open spec fn gzw_flush_post<W: Write + io::Seek>(g0: GenericZipWriter<W>, g1: GenericZipWriter<W>, r: io::Result<()>) -> bool {
    match g0 {
        GenericZipWriter::Closed => g1 is Closed && r is Err,
        GenericZipWriter::Storer(m0) => g1 matches GenericZipWriter::Storer(m1) && me_flush_post(m0, m1, r),
        GenericZipWriter::Deflater(e0) => g1 matches GenericZipWriter::Deflater(e1) && e1.inner() == e0.inner() && e1.g_level() == e0.g_level() && e1.consumed() == e0.consumed(),
        GenericZipWriter::Bzip2(e0) => g1 matches GenericZipWriter::Bzip2(e1) && e1.inner() == e0.inner() && e1.g_level() == e0.g_level() && e1.consumed() == e0.consumed(),
        GenericZipWriter::Zstd(e0) => g1 matches GenericZipWriter::Zstd(e1) && e1.inner() == e0.inner() && e1.g_level() == e0.g_level() && e1.consumed() == e0.consumed(),
    }
}
impl<W: Write + io::Seek> Dev for GenericZipWriter<W> {
    open spec fn g_dev(&self) -> bool { false }
    open spec fn g_bytes(&self) -> Seq<u8> { Seq::empty() }
    open spec fn g_pos(&self) -> int { 0 }
    open spec fn g_fault(&self) -> bool { false }
    open spec fn g_ready(&self) -> bool { match self { GenericZipWriter::Storer(m) => m.g_ready(), _ => true } }
    open spec fn g_inv(&self) -> bool { match self { GenericZipWriter::Storer(m) => m.g_inv(), _ => true } }
}
impl<W: Write + io::Seek> Write for GenericZipWriter<W> {
    fn write(&mut self, buf: &[u8]) -> (r: io::Result<usize>)
        ensures gzw_write_post(*old(self), *final(self), buf@, r)
    {
        match self {
            GenericZipWriter::Storer(w) => w.write(buf),
            GenericZipWriter::Deflater(w) => w.write(buf),
            GenericZipWriter::Bzip2(w) => w.write(buf),
            GenericZipWriter::Zstd(w) => w.write(buf),
            GenericZipWriter::Closed => Err(io::Error::new(io::ErrorKind::Other, ())),
        }
    }
    fn flush(&mut self) -> (r: io::Result<()>)
        ensures gzw_flush_post(*old(self), *final(self), r)
    {
        match self {
            GenericZipWriter::Storer(w) => w.flush(),
            GenericZipWriter::Deflater(w) => w.flush(),
            GenericZipWriter::Bzip2(w) => w.flush(),
            GenericZipWriter::Zstd(w) => w.flush(),
            GenericZipWriter::Closed => Err(io::Error::new(io::ErrorKind::Other, ())),
        }
    }
}
