// shared by U7a (leaves) and U7 (state machine): writer types cut verbatim + their ghost views
// ---- types of the writer, cut verbatim
pub mod zipcrypto {
use vstd::prelude::*;
use super::*;
use std::num::Wrapping;
//@item src/zipcrypto.rs | struct ZipCryptoKeys
//@item src/zipcrypto.rs | struct ZipCryptoWriter
// ghost: the buffering ZipCrypto writer is not a device
impl<W> Dev for ZipCryptoWriter<W> {
    open spec fn g_dev(&self) -> bool { false }
    open spec fn g_bytes(&self) -> Seq<u8> { Seq::empty() }
    open spec fn g_pos(&self) -> int { 0 }
    open spec fn g_fault(&self) -> bool { false }
}
//@impl src/zipcrypto.rs | impl<W: std::io::Write> std::io::Write for ZipCryptoWriter<W>
impl<W: Write> Write for ZipCryptoWriter<W> {   // T8 `std_io`: std::io::Write is the shim trait
//@use zcwriter_write
//@use zcwriter_flush
}
}
//@item src/write.rs | enum MaybeEncrypted
//@item src/write.rs | enum GenericZipWriter
//@item src/write.rs | struct ZipWriterStats
//@item src/write.rs | struct FileOptions

// ghost: MaybeEncrypted is the sink itself when unencrypted, a buffer otherwise
impl<W: Dev> Dev for MaybeEncrypted<W> {
    open spec fn g_dev(&self) -> bool { match self { MaybeEncrypted::Unencrypted(w) => w.g_dev(), MaybeEncrypted::Encrypted(_) => false } }
    open spec fn g_bytes(&self) -> Seq<u8> { match self { MaybeEncrypted::Unencrypted(w) => w.g_bytes(), MaybeEncrypted::Encrypted(_) => Seq::empty() } }
    open spec fn g_pos(&self) -> int { match self { MaybeEncrypted::Unencrypted(w) => w.g_pos(), MaybeEncrypted::Encrypted(_) => 0 } }
    open spec fn g_fault(&self) -> bool { match self { MaybeEncrypted::Unencrypted(w) => w.g_fault(), MaybeEncrypted::Encrypted(_) => false } }
    open spec fn g_ready(&self) -> bool { match self { MaybeEncrypted::Unencrypted(w) => w.g_ready(), MaybeEncrypted::Encrypted(_) => true } }
    // the sink below is a usable device, or a ZipCrypto buffer (with its 12-byte header slot) over one
    open spec fn g_inv(&self) -> bool {
        match self {
            MaybeEncrypted::Unencrypted(s) => dev_ok(s),
            MaybeEncrypted::Encrypted(z) => z.buffer@.len() >= 12 && dev_ok(&z.writer),
        }
    }
}
//@impl src/write.rs | impl<W: Write> Write for MaybeEncrypted<W>
impl<W: Write> Write for MaybeEncrypted<W> {
//@use maybeenc_write
//@use maybeenc_flush
}
// ---- GenericZipWriter: which method the installed encoder implements, and the plain-sink shape
pub open spec fn gzw_method<W: Write + io::Seek>(g: GenericZipWriter<W>) -> Option<CompressionMethod> {
    match g {
        GenericZipWriter::Closed => None,
        GenericZipWriter::Storer(_) => Some(CompressionMethod::Stored),
        GenericZipWriter::Deflater(_) => Some(CompressionMethod::Deflated),
        GenericZipWriter::Bzip2(_) => Some(CompressionMethod::Bzip2),
        GenericZipWriter::Zstd(_) => Some(CompressionMethod::Zstd),
    }
}
pub open spec fn gzw_plain<W: Write + io::Seek>(g: GenericZipWriter<W>) -> bool {
    g matches GenericZipWriter::Storer(MaybeEncrypted::Unencrypted(_))
}
pub open spec fn gzw_plain_sink<W: Write + io::Seek>(g: GenericZipWriter<W>) -> W {
    g->Storer_0->Unencrypted_0
}
// the sink the installed encoder was created over / the level it runs at / the plaintext it has accepted
pub open spec fn gzw_sink<W: Write + io::Seek>(g: GenericZipWriter<W>) -> MaybeEncrypted<W> {
    match g {
        GenericZipWriter::Closed => arbitrary(),
        GenericZipWriter::Storer(w) => w,
        GenericZipWriter::Deflater(e) => e.inner(),
        GenericZipWriter::Bzip2(e) => e.inner(),
        GenericZipWriter::Zstd(e) => e.inner(),
    }
}
pub open spec fn gzw_level<W: Write + io::Seek>(g: GenericZipWriter<W>) -> int {
    match g {
        GenericZipWriter::Closed => 0,
        GenericZipWriter::Storer(_) => 0,
        GenericZipWriter::Deflater(e) => e.g_level(),
        GenericZipWriter::Bzip2(e) => e.g_level(),
        GenericZipWriter::Zstd(e) => e.g_level(),
    }
}
pub open spec fn gzw_consumed<W: Write + io::Seek>(g: GenericZipWriter<W>) -> Seq<u8> {
    match g {
        GenericZipWriter::Closed => Seq::empty(),
        GenericZipWriter::Storer(_) => Seq::empty(),
        GenericZipWriter::Deflater(e) => e.consumed(),
        GenericZipWriter::Bzip2(e) => e.consumed(),
        GenericZipWriter::Zstd(e) => e.consumed(),
    }
}
// `bare` is what finishing the encoder of `g` hands back: the sink itself for Storer, otherwise the sink after one
// all-or-error write of the compressed stream (encoder contract, shims/encoders.rs)
pub open spec fn gzw_finished<W: Write + io::Seek>(g: GenericZipWriter<W>, bare: MaybeEncrypted<W>) -> bool {
    match g {
        GenericZipWriter::Closed => false,
        GenericZipWriter::Storer(w) => bare == w,
        GenericZipWriter::Deflater(e) => wr_n(&e.inner(), &bare, true, compress(CompressionMethod::Deflated, e.g_level(), e.consumed())),
        GenericZipWriter::Bzip2(e) => wr_n(&e.inner(), &bare, true, compress(CompressionMethod::Bzip2, e.g_level(), e.consumed())),
        GenericZipWriter::Zstd(e) => wr_n(&e.inner(), &bare, true, compress(CompressionMethod::Zstd, e.g_level(), e.consumed())),
    }
}
// What the documentation of FileOptions::compression_level promises (and property C12 demands an error outside of):
//   Deflated 0..=9 (default 6), Bzip2 0..=9 (default 6), Zstd: zstd's own range (default 3),
//   every other method: only `None`.  AES and Unsupported(_) cannot be written at all.
pub open spec fn level_accepted(m: CompressionMethod, level: Option<i32>) -> bool {
    match m {
        CompressionMethod::Stored => level is None,
        CompressionMethod::Deflated => (level matches Some(l) ==> 0 <= l <= 9),
        CompressionMethod::Bzip2 => (level matches Some(l) ==> 0 <= l <= 9),
        CompressionMethod::Zstd => (level matches Some(l) ==> zstd::min_level() <= l <= zstd::max_level()),
        CompressionMethod::Aes => false,
        CompressionMethod::Unsupported(_) => false,
    }
}
pub open spec fn effective_level(m: CompressionMethod, level: Option<i32>) -> int {
    match m {
        CompressionMethod::Deflated => (match level { Some(l) => l as int, None => 6 }),
        CompressionMethod::Bzip2 => (match level { Some(l) => l as int, None => 6 }),
        CompressionMethod::Zstd => (match level { Some(l) => l as int, None => 3 }),
        _ => 0,
    }
}
