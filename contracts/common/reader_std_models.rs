// T7x in ZipFileReader::authenticate_rest: `io::copy(reader, &mut io::sink()).map(|_| ())`.
// TRANSCRIPTION of std::io::copy (generic path, library/std/src/io/copy.rs `stack_buffer_copy`) into `io::sink()`
// (whose write_all accepts everything and never fails): read into an 8 KiB stack buffer until Ok(0), count the bytes;
// the retry on ErrorKind::Interrupted is omitted (the I/O model has no such kind); `.map(|_| ())` drops the count.
// The body is VERIFIED against the read relation of the AES reader (proved in U11), so "success means the reader
// reported end-of-file, hence the code was checked" and termination are derived; only the transcription is trusted.
fn shim_copy_aes_to_sink<R: Read>(reader: &mut AesReaderValid<R>) -> (r: io::Result<()>)
    ensures
        final(reader).g_mode() == old(reader).g_mode() && final(reader).g_password() == old(reader).g_password(),
        old(reader).g_authenticated() ==> final(reader).g_authenticated(),
        r is Ok ==> final(reader).g_authenticated(),
{
    let mut buffer = [0u8; 8192];
    let mut len: u64 = 0;
    loop
        invariant
            buffer@.len() == 8192,
            reader.g_mode() == old(reader).g_mode() && reader.g_password() == old(reader).g_password(),
            old(reader).g_authenticated() ==> reader.g_authenticated(),
            len + reader.g_remaining() <= u64::MAX,
        decreases reader.g_remaining(),
    {
        let n = match reader.read(&mut buffer) {
            Ok(n) => n,
            Err(e) => return Err(e),
        };
        if n == 0 {
            return Ok(());   // std: `break` out of the loop, then `Ok(len)`, mapped to `()` by the caller
        }
        len += n as u64;
    }
}
