// shared by U7 and U7b
// ---- the representation invariant of ZipWriter (C12): what every public operation needs and re-establishes
pub open spec fn files_ok(files: Seq<ZipFileData>) -> bool {
    forall|i: int| 0 <= i < files.len() ==> (#[trigger] files[i]).last_modified_time.year >= 1980
}
// where the local header of an entry (without user extra data) ends
pub open spec fn lfh_end(f: ZipFileData) -> int { f.header_start + 30 + utf8(f.file_name@).len() + (if f.large_file { 20int } else { 0int }) }
pub open spec fn zw_faulted<W: Write + io::Seek>(w: &ZipWriter<W>) -> bool {
    gzw_plain(w.inner) && gzw_plain_sink(w.inner).g_fault()
}
pub open spec fn maybe_ok<W: Write + io::Seek>(m: MaybeEncrypted<W>) -> bool { m.g_inv() }
pub open spec fn zw_wf<W: Write + io::Seek>(w: &ZipWriter<W>) -> bool {
    &&& files_ok(w.files@)
    &&& (w.writing_to_file ==> w.files@.len() > 0)
    &&& (w.writing_to_extra_field ==> w.writing_to_file && !w.writing_raw && w.files@.last().header_start + 30 <= MAX_OFF)
    // the data of the open entry starts behind its 30 fixed header bytes (while extra data is collected over an unfaulted sink)
    &&& (w.writing_to_extra_field && !w.writing_to_central_extra_field_only && gzw_plain(w.inner) && !zw_faulted(w)
            ==> w.files@.last().header_start + 30 <= w.files@.last().data_start.0.g_val())
    &&& (w.writing_to_extra_field && !w.writing_to_central_extra_field_only ==> (gzw_plain(w.inner) || w.inner is Closed))
    // while local extra data is being collected over an unfaulted sink, the sink has not moved back behind the
    // recorded data start (it is parked there; only Write operations, which advance, can reach it meanwhile)
    &&& (w.writing_to_extra_field && !w.writing_to_central_extra_field_only && gzw_plain(w.inner) && !zw_faulted(w)
            ==> w.files@.last().data_start.0.g_val() == gzw_plain_sink(w.inner).g_pos())
    &&& (w.writing_to_central_extra_field_only ==> w.writing_to_extra_field)
    &&& (!(w.inner is Closed) ==> maybe_ok(gzw_sink(w.inner)))
    &&& (w.inner matches GenericZipWriter::Storer(MaybeEncrypted::Encrypted(_)) ==> w.files@.len() > 0)
    // an encrypted (stored) entry buffers its data; the sink below is parked right behind the entry's local header
    &&& (w.inner matches GenericZipWriter::Storer(MaybeEncrypted::Encrypted(z)) ==> (!z.writer.g_fault() ==>
            z.writer.g_pos() == w.stats.start && lfh_end(w.files@.last()) <= w.stats.start))
}
// Only relevant after a device fault inside end_extra_data: the recorded data start still has room for one more
// extra field.  Without a fault it follows from zw_wf (data start == sink position <= 2^63).  After such a fault
// every failed retry may add up to 65535, so 2^47 retries would be needed to exhaust it: stated, not proved.
pub open spec fn zw_room<W: Write + io::Seek>(w: &ZipWriter<W>) -> bool {
    w.writing_to_extra_field && !w.writing_to_central_extra_field_only && w.files@.len() > 0
        ==> w.files@.last().data_start.0.g_val() <= 0xFFFF_FFFF_FFFF_0000
}

// ZipWriter itself is a Write adapter: usable while its representation invariant holds
pub open spec fn zw_ready<W: Write + io::Seek>(w: &ZipWriter<W>) -> bool {
    zw_wf(w) && w.stats.bytes_written <= 0x7fff_ffff_ffff_ffff
}
impl<W: Write + io::Seek> Dev for ZipWriter<W> {
    open spec fn g_ready(&self) -> bool { zw_ready(self) }
    open spec fn g_dev(&self) -> bool { false }
    open spec fn g_bytes(&self) -> Seq<u8> { Seq::empty() }
    open spec fn g_pos(&self) -> int { 0 }
    open spec fn g_fault(&self) -> bool { false }
}
// C02/C08: what finalize leaves behind the central directory that starts at `cs` and is `csz` bytes long
pub open spec fn fin_ok(bytes: Seq<u8>, pos: int, n: int, comment: Seq<u8>, cs: int, csz: int, z64: bool) -> bool {
    let e = Eocd { disk: 0, cd_disk: 0,
                   n_this: (if n > 0xFFFF { 0xFFFFu16 } else { n as u16 }), n_total: (if n > 0xFFFF { 0xFFFFu16 } else { n as u16 }),
                   cd_size: sat32(csz as u64), cd_off: sat32(cs as u64), comment: comment };
    let zr = Z64Eocd { made_by: 46, needed: 46, disk: 0, cd_disk: 0, n_this: n as u64, n_total: n as u64, cd_size: csz as u64, cd_off: cs as u64 };
    let zl = Z64Loc { cd_disk: 0, z64_off: (cs + csz) as u64, n_disks: 1 };
    let tail = if z64 { cs + csz + 76 } else { cs + csz };
    &&& 0 <= cs && 0 <= csz && cs + csz <= MAX_OFF
    // ZIP64 records are present whenever a count, size or offset does not fit its field
    &&& ((n > 0xFFFF || csz > U32MAX || cs > U32MAX) ==> z64)
    // and whenever present they carry the exact values and point at each other
    &&& (z64 ==> inb(bytes, cs + csz, 76) && at(bytes, cs + csz, 56) == enc_z64eocd(zr) && at(bytes, cs + csz + 56, 20) == enc_z64loc(zl))
    // the end record closes the file; each field is exact, or saturated with the ZIP64 record present
    &&& inb(bytes, tail, 22 + comment.len() as int) && at(bytes, tail, 22 + comment.len() as int) == enc_eocd(e)
    &&& pos == tail + 22 + comment.len()
    &&& (!z64 ==> e.n_total as int == n && e.cd_size as int == csz && e.cd_off as int == cs)
}

// ---- C01/C19: the metadata of a freshly started entry is what the caller asked for
pub open spec fn entry_meta_as_asked(f: ZipFileData, o: FileOptions, method: CompressionMethod) -> bool {
    f.compression_method == method && f.compression_level == o.compression_level
    && f.last_modified_time == o.last_modified_time && f.large_file == o.large_file
    && f.encrypted == (o.encrypt_with is Some) && f.system == System::Unix && f.file_comment@.len() == 0
}
// ---- frame: an operation on an open entry may change its sizes, CRC, extra field and data start, nothing else
pub open spec fn entry_identity_kept(a: ZipFileData, b: ZipFileData) -> bool {
    b.file_name == a.file_name && b.file_comment == a.file_comment && b.last_modified_time == a.last_modified_time
    && b.header_start == a.header_start && b.large_file == a.large_file && b.compression_method == a.compression_method
    && b.compression_level == a.compression_level && b.encrypted == a.encrypted && b.system == a.system
    && b.external_attributes == a.external_attributes && b.version_made_by == a.version_made_by
    && b.using_data_descriptor == a.using_data_descriptor && b.aes_mode == a.aes_mode
}
// TRUSTED (std): `impl<T> From<T> for T` is the identity, so a String converts into itself (used by add_directory, which
// hands start_entry the String it built)
pub axiom fn axiom_string_into_string(s: String)
    ensures <String as IntoSpec<String>>::obeys_into_spec(), IntoSpec::<String>::into_spec(s) == s;
// ---- C11: an operation that reports success has not seen the sink fail (for a sink that had not failed before)
pub open spec fn zw_sink_dev<W: Write + io::Seek>(w: &ZipWriter<W>) -> bool { !(w.inner is Closed) && gzw_sink(w.inner).g_dev() }
pub open spec fn zw_sink_fault<W: Write + io::Seek>(w: &ZipWriter<W>) -> bool { !(w.inner is Closed) && gzw_sink(w.inner).g_fault() }
// an (unencrypted) device sink that has never reported a failure
pub open spec fn zw_clean<W: Write + io::Seek>(w: &ZipWriter<W>) -> bool { zw_sink_dev(w) && !zw_sink_fault(w) }
// ---- C12/C13/C14 over whole call sequences, stated per operation: once an entry has been closed (finish_file marks it:
// writing_raw) or is a raw copy / the last entry of an appended archive, its record is never rewritten by any later
// operation.  Together with `earlier_entries_untouched` this is an induction over call sequences of any length.
pub open spec fn zw_frozen_kept<W: Write + io::Seek>(a: &ZipWriter<W>, b: &ZipWriter<W>) -> bool {
    a.writing_raw && a.files@.len() > 0 ==> b.files@.len() >= a.files@.len() && b.files@[a.files@.len() - 1] == a.files@.last()
}
