// shared by U7 and U7b
// ---- the representation invariant of ZipWriter (C12): what every public operation needs and re-establishes
pub open spec fn files_ok(files: Seq<ZipFileData>) -> bool {
    forall|i: int| 0 <= i < files.len() ==> (#[trigger] files[i]).last_modified_time.year >= 1980
}
// where the local header of an entry (without user extra data) ends
pub open spec fn lfh_end(f: ZipFileData) -> int { f.header_start + 30 + utf8(f.file_name@).len() + (if f.large_file { 20int } else { 0int }) }
pub open spec fn zw_faulted<W: Write + io::Seek>(w: &ZipWriter<W>) -> bool {
    gzw_plain(w.inner) && gzw_plain_sink(w.inner).g_fault()
}
pub open spec fn maybe_ok<W: Write + io::Seek>(m: MaybeEncrypted<W>) -> bool { m.g_inv() }
pub open spec fn zw_wf<W: Write + io::Seek>(w: &ZipWriter<W>) -> bool {
    &&& files_ok(w.files@)
    &&& (w.writing_to_file ==> w.files@.len() > 0)
    &&& (w.writing_to_extra_field ==> w.writing_to_file && !w.writing_raw && w.files@.last().header_start + 30 <= MAX_OFF)
    // the data of the open entry starts behind its 30 fixed header bytes (while extra data is collected over an unfaulted sink)
    &&& (w.writing_to_extra_field && !w.writing_to_central_extra_field_only && gzw_plain(w.inner) && !zw_faulted(w)
            ==> w.files@.last().header_start + 30 <= w.files@.last().data_start.0.g_val())
    &&& (w.writing_to_extra_field && !w.writing_to_central_extra_field_only ==> (gzw_plain(w.inner) || w.inner is Closed))
    // while local extra data is being collected over an unfaulted sink, the sink has not moved back behind the
    // recorded data start (it is parked there; only Write operations, which advance, can reach it meanwhile)
    &&& (w.writing_to_extra_field && !w.writing_to_central_extra_field_only && gzw_plain(w.inner) && !zw_faulted(w)
            ==> w.files@.last().data_start.0.g_val() == gzw_plain_sink(w.inner).g_pos())
    &&& (w.writing_to_central_extra_field_only ==> w.writing_to_extra_field)
    &&& (!(w.inner is Closed) ==> maybe_ok(gzw_sink(w.inner)))
    &&& (w.inner matches GenericZipWriter::Storer(MaybeEncrypted::Encrypted(_)) ==> w.files@.len() > 0)
    // an encrypted (stored) entry buffers its data; the sink below is parked right behind the entry's local header
    &&& (w.inner matches GenericZipWriter::Storer(MaybeEncrypted::Encrypted(z)) ==> (!z.writer.g_fault() ==>
            z.writer.g_pos() == w.stats.start && lfh_end(w.files@.last()) <= w.stats.start))
    // C08: an entry that was not declared large never holds more than 2^32-1 bytes while the writer is usable: crossing
    // the limit closes the writer (ZipWriter::write), so the 32-bit size fields patched in by finish_file cannot wrap
    &&& (!w.writing_raw && w.files@.len() > 0 && !w.files@.last().large_file && !(w.inner is Closed) ==> w.stats.bytes_written <= U32MAX)
}
// Only relevant after a device fault inside end_extra_data: the recorded data start still has room for one more
// extra field.  Without a fault it follows from zw_wf (data start == sink position <= 2^63).  After such a fault
// every failed retry may add up to 65535, so 2^47 retries would be needed to exhaust it: stated, not proved.
pub open spec fn zw_room<W: Write + io::Seek>(w: &ZipWriter<W>) -> bool {
    w.writing_to_extra_field && !w.writing_to_central_extra_field_only && w.files@.len() > 0
        ==> w.files@.last().data_start.0.g_val() <= 0xFFFF_FFFF_FFFF_0000
}

// ZipWriter itself is a Write adapter: usable while its representation invariant holds
pub open spec fn zw_ready<W: Write + io::Seek>(w: &ZipWriter<W>) -> bool {
    zw_wf(w) && w.stats.bytes_written <= 0x7fff_ffff_ffff_ffff
}
impl<W: Write + io::Seek> Dev for ZipWriter<W> {
    open spec fn g_ready(&self) -> bool { zw_ready(self) }
    open spec fn g_dev(&self) -> bool { false }
    open spec fn g_bytes(&self) -> Seq<u8> { Seq::empty() }
    open spec fn g_pos(&self) -> int { 0 }
    open spec fn g_fault(&self) -> bool { false }
}
// C02/C08: what finalize leaves behind the central directory that starts at `cs` and is `csz` bytes long
pub open spec fn fin_ok(bytes: Seq<u8>, pos: int, n: int, comment: Seq<u8>, cs: int, csz: int, z64: bool) -> bool {
    let e = Eocd { disk: 0, cd_disk: 0,
                   n_this: (if n > 0xFFFF { 0xFFFFu16 } else { n as u16 }), n_total: (if n > 0xFFFF { 0xFFFFu16 } else { n as u16 }),
                   cd_size: sat32(csz as u64), cd_off: sat32(cs as u64), comment: comment };
    let zr = Z64Eocd { made_by: 46, needed: 46, disk: 0, cd_disk: 0, n_this: n as u64, n_total: n as u64, cd_size: csz as u64, cd_off: cs as u64 };
    let zl = Z64Loc { cd_disk: 0, z64_off: (cs + csz) as u64, n_disks: 1 };
    let tail = if z64 { cs + csz + 76 } else { cs + csz };
    &&& 0 <= cs && 0 <= csz && cs + csz <= MAX_OFF
    // ZIP64 records are present whenever a count, size or offset does not fit its field - and a field "does not fit" from the
    // all-ones value on: APPNOTE 4.4.1.4 reserves 0xFFFF / 0xFFFFFFFF in the end record to mean "see the ZIP64 record", so an
    // independent parser that meets the value looks for that record (F28: 65535 entries / a directory at offset 0xFFFFFFFF)
    &&& ((n >= 0xFFFF || csz >= U32MAX || cs >= U32MAX) ==> z64)
    // and whenever present they carry the exact values and point at each other
    &&& (z64 ==> inb(bytes, cs + csz, 76) && at(bytes, cs + csz, 56) == enc_z64eocd(zr) && at(bytes, cs + csz + 56, 20) == enc_z64loc(zl))
    // the end record closes the file; each field is exact, or saturated with the ZIP64 record present
    &&& inb(bytes, tail, 22 + comment.len() as int) && at(bytes, tail, 22 + comment.len() as int) == enc_eocd(e)
    &&& pos == tail + 22 + comment.len()
    &&& (!z64 ==> e.n_total as int == n && e.cd_size as int == csz && e.cd_off as int == cs)
}

// ---- C01/C19: the metadata of a freshly started entry is what the caller asked for
pub open spec fn entry_meta_as_asked(f: ZipFileData, o: FileOptions, method: CompressionMethod) -> bool {
    f.compression_method == method && f.compression_level == o.compression_level
    && f.last_modified_time == o.last_modified_time && f.large_file == o.large_file
    && f.encrypted == (o.encrypt_with is Some) && f.system == System::Unix && f.file_comment@.len() == 0
}
// ---- frame: an operation on an open entry may change its sizes, CRC, extra field and data start, nothing else
pub open spec fn entry_identity_kept(a: ZipFileData, b: ZipFileData) -> bool {
    b.file_name == a.file_name && b.file_comment == a.file_comment && b.last_modified_time == a.last_modified_time
    && b.header_start == a.header_start && b.large_file == a.large_file && b.compression_method == a.compression_method
    && b.compression_level == a.compression_level && b.encrypted == a.encrypted && b.system == a.system
    && b.external_attributes == a.external_attributes && b.version_made_by == a.version_made_by
    && b.using_data_descriptor == a.using_data_descriptor && b.aes_mode == a.aes_mode
}
// TRUSTED (std): `impl<T> From<T> for T` is the identity, so a String converts into itself (used by add_directory, which
// hands start_entry the String it built)
pub axiom fn axiom_string_into_string(s: String)
    ensures <String as IntoSpec<String>>::obeys_into_spec(), IntoSpec::<String>::into_spec(s) == s;
// TRUSTED (std): `impl From<String> for Vec<u8>` is `String::into_bytes` - the string's UTF-8 encoding (used by set_comment)
pub axiom fn axiom_string_into_bytes(s: String)
    ensures <String as IntoSpec<Vec<u8>>>::obeys_into_spec(), IntoSpec::<Vec<u8>>::into_spec(s)@ == utf8(s@);
// ---- C11: an operation that reports success has not seen the sink fail (for a sink that had not failed before)
pub open spec fn zw_sink_dev<W: Write + io::Seek>(w: &ZipWriter<W>) -> bool { !(w.inner is Closed) && gzw_sink(w.inner).g_dev() }
pub open spec fn zw_sink_fault<W: Write + io::Seek>(w: &ZipWriter<W>) -> bool { !(w.inner is Closed) && gzw_sink(w.inner).g_fault() }
// an (unencrypted) device sink that has never reported a failure
pub open spec fn zw_clean<W: Write + io::Seek>(w: &ZipWriter<W>) -> bool { zw_sink_dev(w) && !zw_sink_fault(w) }
// ---- C12/C13/C14 over whole call sequences, stated per operation: once an entry has been closed (finish_file marks it:
// writing_raw) or is a raw copy / the last entry of an appended archive, its record is never rewritten by any later
// operation.  Together with `earlier_entries_untouched` this is an induction over call sequences of any length.
pub open spec fn zw_frozen_kept<W: Write + io::Seek>(a: &ZipWriter<W>, b: &ZipWriter<W>) -> bool {
    a.writing_raw && a.files@.len() > 0 ==> b.files@.len() >= a.files@.len() && b.files@[a.files@.len() - 1] == a.files@.last()
}
// ---- C01/C02/C09: the CONTENT of the open entry.  The ghost content of the entry is `w.stats.hasher@`: exactly the
// bytes ZipWriter::write has accepted for it, in order (zw_write: accounts_exactly_the_accepted_bytes).
// an entry is open and takes data
pub open spec fn zw_data_mode<W: Write + io::Seek>(w: &ZipWriter<W>) -> bool {
    w.writing_to_file && !w.writing_to_extra_field && !w.writing_raw && w.files@.len() > 0
}
// the sink an encoder was created over stands at the start of the entry's data, behind the entry's local header
pub open spec fn zw_enc_sink_ok<W: Write + io::Seek>(m: MaybeEncrypted<W>, w: &ZipWriter<W>) -> bool {
    m matches MaybeEncrypted::Unencrypted(s) ==> (s.g_dev() && !s.g_fault() ==>
        s.g_pos() == w.stats.start && lfh_end(w.files@.last()) <= w.stats.start && w.stats.start <= s.g_bytes().len())
}
// where the content is, per installed writer
pub open spec fn zw_data_facts<W: Write + io::Seek>(w: &ZipWriter<W>) -> bool {
    let data = w.stats.hasher@;
    &&& data.len() == w.stats.bytes_written
    // the entry's record points at the data region, and names the method of the installed writer
    &&& w.files@.last().data_start.0.g_val() == w.stats.start
    &&& (w.inner is Closed || gzw_method(w.inner) == Some(w.files@.last().compression_method))
    &&& match w.inner {
        // a writer that poisoned itself takes no more data and can never be closed successfully
        GenericZipWriter::Closed => true,
        // stored: the data region of the entry in the sink IS the content, and the sink stands right behind it
        GenericZipWriter::Storer(MaybeEncrypted::Unencrypted(s)) => (s.g_dev() && !s.g_fault() ==> {
            &&& s.g_pos() == w.stats.start + w.stats.bytes_written
            &&& inb(s.g_bytes(), w.stats.start as int, w.stats.bytes_written as int)
            &&& at(s.g_bytes(), w.stats.start as int, w.stats.bytes_written as int) == data
            &&& lfh_end(w.files@.last()) <= w.stats.start
        }),
        // stored + ZipCrypto: buffered behind the 12-byte header slot (where the sink is parked: zw_wf)
        GenericZipWriter::Storer(MaybeEncrypted::Encrypted(z)) =>
            z.buffer@.len() >= 12 && z.buffer@.subrange(12, z.buffer@.len() as int) == data,
        // compressed: the encoder has consumed exactly the content; its sink waits at the start of the data
        GenericZipWriter::Deflater(e) => e.consumed() == data && zw_enc_sink_ok(e.inner(), w),
        GenericZipWriter::Bzip2(e) => e.consumed() == data && zw_enc_sink_ok(e.inner(), w),
        GenericZipWriter::Zstd(e) => e.consumed() == data && zw_enc_sink_ok(e.inner(), w),
    }
}
// while the LOCAL extra data of the entry is still being collected: no content yet, and the parked sink stands behind
// the local header and inside what has been written (so that end_extra_data can open the data region there)
pub open spec fn zw_predata_facts<W: Write + io::Seek>(w: &ZipWriter<W>) -> bool {
    &&& w.stats.hasher@.len() == 0 && w.stats.bytes_written == 0
    &&& (w.inner matches GenericZipWriter::Storer(MaybeEncrypted::Unencrypted(s)) ==> (s.g_dev() && !s.g_fault() ==>
            lfh_end(w.files@.last()) <= w.files@.last().data_start.0.g_val() <= s.g_bytes().len()))
}
// THE content statement of the open entry.  In data mode (zw_data_mode) it is zw_data_facts; it is carried through the
// extra-data phases that may precede the data (start_file_with_extra_data .. end_extra_data) so that end_extra_data can
// establish it; it says nothing when no entry is open or the last entry is closed / a raw copy (writing_raw).
// (opaque: most operations only hand it on; `reveal(zw_data_ok)` where its content is needed)
#[verifier::opaque]
pub open spec fn zw_data_ok<W: Write + io::Seek>(w: &ZipWriter<W>) -> bool {
    w.writing_to_file && !w.writing_raw && w.files@.len() > 0 ==>
        (if w.writing_to_extra_field && !w.writing_to_central_extra_field_only { zw_predata_facts(w) } else { zw_data_facts(w) })
}
// C01/C02: what closing an entry leaves: its record carries the length and CRC-32 of `data` and the length of `stream`
// (the entry's byte stream: `data` itself when stored, its compressed form otherwise); `stream` lies in the sink from
// the entry's data start, and the sink stands right behind it
pub open spec fn entry_closed_over<W: Write + io::Seek>(f: ZipFileData, s1: W, start: int, data: Seq<u8>, stream: Seq<u8>) -> bool {
    &&& f.uncompressed_size == data.len() && f.crc32 == crc32(data) && f.compressed_size == stream.len()
    &&& f.data_start.0.g_val() == start
    &&& inb(s1.g_bytes(), start, stream.len() as int) && at(s1.g_bytes(), start, stream.len() as int) == stream
    &&& s1.g_pos() == start + stream.len()
}
// A failing write keeps the content statement unless a compressing encoder is installed: the assumed encoder contract
// (shims/encoders.rs) does not say what a failing `write` of flate2 / bzip2 / zstd has consumed.
pub open spec fn zw_err_keeps_content<W: Write + io::Seek>(w: &ZipWriter<W>) -> bool {
    w.inner is Storer || w.inner is Closed || w.writing_to_extra_field
}
// the back-patch of the local header (update_local_file_header) lies below lfh_end: a region above it is untouched
// @props: C01 C02 -- patching CRC and sizes into a local header leaves every byte at or above the end of that header alone
pub proof fn lemma_backpatch_below(b: Seq<u8>, f: ZipFileData, q: int, n: int)
    requires 0 <= f.header_start, lfh_end(f) <= q, 0 <= n, q + n <= b.len()
    ensures
        !f.large_file ==> ({
            let b2 = put(b, f.header_start + 14, le32(f.crc32) + le32(f.compressed_size as u32) + le32(f.uncompressed_size as u32));
            at(b2, q, n) == at(b, q, n) && inb(b2, q, n) }),
        f.large_file ==> ({
            let b2 = put(put(b, f.header_start + 14, le32(f.crc32)), f.header_start + 30 + utf8(f.file_name@).len() + 4,
                         le64(f.uncompressed_size) + le64(f.compressed_size));
            at(b2, q, n) == at(b, q, n) && inb(b2, q, n) }),
{
    broadcast use group_le_len;
    if !f.large_file {
        lemma_at_above(b, f.header_start + 14, le32(f.crc32) + le32(f.compressed_size as u32) + le32(f.uncompressed_size as u32), q, n);
    } else {
        let b1 = put(b, f.header_start + 14, le32(f.crc32));
        lemma_at_above(b, f.header_start + 14, le32(f.crc32), q, n);
        lemma_put_len(b, f.header_start + 14, le32(f.crc32));
        lemma_at_above(b1, f.header_start + 30 + utf8(f.file_name@).len() + 4, le64(f.uncompressed_size) + le64(f.compressed_size), q, n);
    }
}
// one accepted chunk extends the stored data region: what was there stays, the chunk follows
// @props: C01 C09 -- a chunk written right behind a region extends the region by exactly that chunk
pub proof fn lemma_region_grows(b: Seq<u8>, start: int, n: int, chunk: Seq<u8>)
    requires 0 <= start, 0 <= n, start + n <= b.len()
    ensures ({
        let b2 = put(b, start + n, chunk);
        inb(b2, start, n + chunk.len()) && at(b2, start, n + chunk.len()) == at(b, start, n) + chunk }),
{
    let b2 = put(b, start + n, chunk);
    let k = chunk.len() as int;
    if k == 0 {
        lemma_put_empty(b, start + n);
        assert(chunk =~= Seq::<u8>::empty());
        assert(b2 == b);
        assert(at(b, start, n) + chunk =~= at(b, start, n));
    } else {
        lemma_at_below(b, start + n, chunk, start, n);
        lemma_at_put(b, start + n, chunk, 0, k);
        assert(chunk.subrange(0, k) =~= chunk);
        lemma_put_len(b, start + n, chunk);
        assert(b2.len() >= start + n + k);
        assert(at(b2, start + n, k) == chunk);
        assert(at(b2, start, n) == at(b, start, n));
        assert(at(b2, start, n + k) =~= at(b2, start, n) + at(b2, start + n, k));
    }
}
// the byte stream of the open entry as closing it will leave it in an unencrypted sink: the content itself when stored,
// otherwise what the installed encoder makes of the content (`compress` of shims/encoders.rs)
pub open spec fn zw_stream<W: Write + io::Seek>(w: &ZipWriter<W>) -> Seq<u8> {
    if w.inner is Storer { w.stats.hasher@ } else { compress(w.files@.last().compression_method, gzw_level(w.inner), w.stats.hasher@) }
}
// the sink content after update_local_file_header has patched CRC and sizes of `f` into its local header
pub open spec fn lfh_patched(b: Seq<u8>, f: ZipFileData) -> Seq<u8> {
    if !f.large_file { put(b, f.header_start + 14, le32(f.crc32) + le32(f.compressed_size as u32) + le32(f.uncompressed_size as u32)) }
    else { put(put(b, f.header_start + 14, le32(f.crc32)), f.header_start + 30 + utf8(f.file_name@).len() + 4, le64(f.uncompressed_size) + le64(f.compressed_size)) }
}
// finish_file, data part: once the installed writer of `w0` has been finished into the bare sink `m_sw` (gzw_switch_to),
// that sink holds the entry's byte stream from the data start and stands right behind it, and patching the local
// header of the entry does not touch the stream
// @props: C01 C02 C12 -- closing an entry leaves its byte stream at its data start, untouched by the header back-patch
pub proof fn lemma_close_region<W: Write + io::Seek>(w0: &ZipWriter<W>, m_sw: MaybeEncrypted<W>, f: ZipFileData)
    requires
        zw_wf(w0), zw_data_ok(w0), zw_data_mode(w0), zw_clean(w0), gzw_finished(w0.inner, m_sw),
        f.header_start == w0.files@.last().header_start && f.file_name == w0.files@.last().file_name
            && f.large_file == w0.files@.last().large_file,
    ensures
        m_sw is Unencrypted,
        w0.files@.last().data_start.0.g_val() == w0.stats.start,
        w0.stats.hasher@.len() == w0.stats.bytes_written,
        ({
            let s = m_sw->Unencrypted_0; let start = w0.stats.start as int; let c = zw_stream(w0);
            &&& s.g_dev() && !s.g_fault() && s.g_pos() == start + c.len()
            &&& inb(s.g_bytes(), start, c.len() as int) && at(s.g_bytes(), start, c.len() as int) == c
            &&& inb(lfh_patched(s.g_bytes(), f), start, c.len() as int) && at(lfh_patched(s.g_bytes(), f), start, c.len() as int) == c
        }),
{
    reveal(zw_data_ok);
    let start = w0.stats.start as int;
    let c = zw_stream(w0);
    let m0 = gzw_sink(w0.inner);
    let s0 = m0->Unencrypted_0;
    assert(zw_data_facts(w0));
    assert(m0 is Unencrypted && s0.g_dev() && !s0.g_fault());
    if !(w0.inner is Storer) {
        assert(wr_n(&m0, &m_sw, true, c));
        assert(m_sw.g_dev());
        let s = m_sw->Unencrypted_0;
        lemma_put_len(s0.g_bytes(), start, c);
        if c.len() > 0 {
            lemma_at_put(s0.g_bytes(), start, c, 0, c.len() as int);
            assert(c.subrange(0, c.len() as int) =~= c);
        } else {
            lemma_put_empty(s0.g_bytes(), start);
            assert(at(s.g_bytes(), start, 0) =~= c);
        }
    }
    let s = m_sw->Unencrypted_0;
    assert(lfh_end(f) == lfh_end(w0.files@.last()));
    lemma_backpatch_below(s.g_bytes(), f, start, c.len() as int);
}
// finish_file, ZipCrypto part: what the buffer handed to the cipher consists of
// @props: C15 C01 -- the ZipCrypto buffer of an open entry is its 12-byte header slot followed by exactly the content
pub proof fn lemma_enc_buffer_split<W: Write + io::Seek>(w0: &ZipWriter<W>)
    requires zw_data_ok(w0), zw_data_mode(w0), w0.inner is Storer, w0.inner->Storer_0 is Encrypted,
    ensures ({
        let b = w0.inner->Storer_0->Encrypted_0.buffer@;
        b.len() >= 12 && b == b.subrange(0, 12) + w0.stats.hasher@ && w0.stats.hasher@.len() == w0.stats.bytes_written
            && w0.files@.last().data_start.0.g_val() == w0.stats.start
    }),
{
    reveal(zw_data_ok);
    let b = w0.inner->Storer_0->Encrypted_0.buffer@;
    assert(zw_data_facts(w0));
    assert(b =~= b.subrange(0, 12) + b.subrange(12, b.len() as int));
}
