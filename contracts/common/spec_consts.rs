//@item src/spec.rs | const LOCAL_FILE_HEADER_SIGNATURE
//@item src/spec.rs | const CENTRAL_DIRECTORY_HEADER_SIGNATURE
//@item src/spec.rs | const CENTRAL_DIRECTORY_END_SIGNATURE
//@item src/spec.rs | const ZIP64_CENTRAL_DIRECTORY_END_SIGNATURE
//@item src/spec.rs | const ZIP64_CENTRAL_DIRECTORY_END_LOCATOR_SIGNATURE
//@item src/spec.rs | const ZIP64_BYTES_THR
//@item src/spec.rs | const ZIP64_ENTRY_THR
