// types of src/types.rs and src/compression.rs, extracted verbatim (T1, T2, T9)
//@item src/compression.rs | enum CompressionMethod
// ASSUMED (ghost): `#[derive(PartialEq)]` on CompressionMethod is structural equality
impl vstd::std_specs::cmp::PartialEqSpecImpl for CompressionMethod {
    open spec fn obeys_eq_spec() -> bool { true }
    open spec fn eq_spec(&self, other: &CompressionMethod) -> bool { *self == *other }
}
impl CompressionMethod {
//@item src/compression.rs | impl CompressionMethod | const AES
}
//@item src/types.rs | enum System
//@item src/types.rs | const DEFAULT_VERSION
//@item src/types.rs | struct DateTime
//@item src/types.rs | struct AtomicU64
//@impl src/types.rs | impl AtomicU64
impl AtomicU64 {
//@fn atomicu64_new
//@| fn: src/types.rs | impl AtomicU64 | fn new
//@| ret: r
//@| ensures:
//@|     r.0.g_val() == v,
//@end
//@fn atomicu64_load
//@| fn: src/types.rs | impl AtomicU64 | fn load
//@| ret: r
//@| ensures:
//@|     r == self.0.g_val(),
//@end
//@fn atomicu64_store
//@| fn: src/types.rs | impl AtomicU64 | fn store
//@end
//@fn atomicu64_get_mut
//@| fn: src/types.rs | impl AtomicU64 | fn get_mut
//@| ret: r
//@| ensures:
//@|     *r == old(self).0.g_val() && final(self).0.g_val() == *final(r),
//@end
}
//@impl src/types.rs | impl Clone for AtomicU64
impl Clone for AtomicU64 {
//@fn atomicu64_clone
//@| fn: src/types.rs | impl Clone for AtomicU64 | fn clone
//@| attr: #[verifier::external_body]
//@end
}
//@item src/types.rs | enum AesVendorVersion
//@item src/types.rs | enum AesMode
//@item src/types.rs | struct ZipFileData
//@item src/types.rs | mod ffi
// T8: module paths used by the extracted text resolve to the items above
pub mod compression { pub use super::CompressionMethod; }
