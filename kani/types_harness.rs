// @target src/types.rs
// Kani harnesses for src/types.rs (unit U1 `dostime`, part of U2 `tables`).
// Injected as `#[cfg(kani)] mod verif_kani;` at the end of a scratch copy of
// src/types.rs, so private fields are reachable and nothing in /repo changes.
// Every harness marked `complete` is loop-free over full-domain symbolic
// inputs: its success is a proof, not a bounded run.
use super::*;

fn dim(year: u16, month: u8) -> u8 {
    match month {
        1 | 3 | 5 | 7 | 8 | 10 | 12 => 31,
        4 | 6 | 9 | 11 => 30,
        2 => {
            if (year % 4 == 0 && year % 100 != 0) || year % 400 == 0 { 29 } else { 28 }
        }
        _ => 0,
    }
}

// @harness dos_unpack_pack_roundtrip complete props=C18,C01 doc="for all 2^32 (date,time) words: from_msdos(d,t).datepart()==d and .timepart()==t; fields are the APPNOTE bit fields"
#[kani::proof]
fn dos_unpack_pack_roundtrip() {
    let d: u16 = kani::any();
    let t: u16 = kani::any();
    let x = DateTime::from_msdos(d, t);
    // unpacking is the APPNOTE 4.4.6 layout
    assert!(x.year == 1980 + (d >> 9));
    assert!(x.month as u16 == (d >> 5) & 0xf);
    assert!(x.day as u16 == d & 0x1f);
    assert!(x.hour as u16 == t >> 11);
    assert!(x.minute as u16 == (t >> 5) & 0x3f);
    assert!(x.second as u16 == (t & 0x1f) * 2);
    // packing is its inverse
    assert!(x.datepart() == d);
    assert!(x.timepart() == t);
    kani::cover!(d == 0xffff && t == 0xffff, "all-ones words reachable");
}

// @harness ctor_accepts_exactly_documented_ranges complete props=C18 doc="from_date_and_time is Ok iff year 1980..=2107, month 1..=12, day 1..=31, hour<=23, minute<=59, second<=60; Ok value carries the arguments"
#[kani::proof]
fn ctor_accepts_exactly_documented_ranges() {
    let (y, mo, d, h, mi, s): (u16, u8, u8, u8, u8, u8) = (kani::any(), kani::any(), kani::any(), kani::any(), kani::any(), kani::any());
    let r = DateTime::from_date_and_time(y, mo, d, h, mi, s);
    let documented = 1980 <= y && y <= 2107 && 1 <= mo && mo <= 12 && 1 <= d && d <= 31 && h <= 23 && mi <= 59 && s <= 60;
    assert!(r.is_ok() == documented);
    if let Ok(x) = r {
        assert!(x.year == y && x.month == mo && x.day == d && x.hour == h && x.minute == mi && x.second == s);
        assert!(x.year() == y && x.month() == mo && x.day() == d && x.hour() == h && x.minute() == mi && x.second() == s);
    }
    kani::cover!(r.is_ok() && s == 60, "leap second accepted");
    kani::cover!(r.is_err(), "rejection reachable");
}

// @harness ctor_pack_unpack_2s complete props=C18,C01 doc="every accepted constructor value survives pack/unpack with the second rounded down to even"
#[kani::proof]
fn ctor_pack_unpack_2s() {
    let (y, mo, d, h, mi, s): (u16, u8, u8, u8, u8, u8) = (kani::any(), kani::any(), kani::any(), kani::any(), kani::any(), kani::any());
    if let Ok(x) = DateTime::from_date_and_time(y, mo, d, h, mi, s) {
        let z = DateTime::from_msdos(x.datepart(), x.timepart());
        assert!(z.year == y && z.month == mo && z.day == d && z.hour == h && z.minute == mi);
        assert!(z.second == s & !1);
    }
}

// @harness default_is_epoch complete props=C18 doc="DateTime::default() is 1980-01-01 00:00:00 and packs to (0x0021, 0)"
#[kani::proof]
fn default_is_epoch() {
    let x = DateTime::default();
    assert!(x.year == 1980 && x.month == 1 && x.day == 1 && x.hour == 0 && x.minute == 0 && x.second == 0);
    assert!(x.datepart() == 0x0021 && x.timepart() == 0);
}

// @harness to_time_total_and_err_iff_impossible complete props=C18,C05 doc="for all 2^32 words to_time never panics and is Err exactly for impossible calendar dates/times (Gregorian rule written here); real `time` crate code executed"
#[kani::proof]
fn to_time_total_and_err_iff_impossible() {
    let d: u16 = kani::any();
    let t: u16 = kani::any();
    let x = DateTime::from_msdos(d, t);
    let possible = x.month >= 1 && x.month <= 12 && x.day >= 1 && x.day <= dim(x.year, x.month)
        && x.hour <= 23 && x.minute <= 59 && x.second <= 59;
    let r = x.to_time();
    assert!(r.is_ok() == possible);
    kani::cover!(r.is_ok(), "valid date reachable");
    kani::cover!(r.is_err(), "invalid date reachable");
}

// @harness time_roundtrip complete props=C18 doc="to_time then TryFrom<OffsetDateTime> is the identity on every DOS value with a valid calendar date"
#[kani::proof]
fn time_roundtrip() {
    let d: u16 = kani::any();
    let t: u16 = kani::any();
    let x = DateTime::from_msdos(d, t);
    if let Ok(odt) = x.to_time() {
        let back = DateTime::try_from(odt);
        assert!(back.is_ok());
        let z = back.unwrap();
        assert!(z.year == x.year && z.month == x.month && z.day == x.day && z.hour == x.hour && z.minute == x.minute && z.second == x.second);
        assert!(z.datepart() == d && z.timepart() == t);
    }
}

// @harness try_from_accepts_exactly_1980_2107 complete props=C18 doc="TryFrom<OffsetDateTime> is Ok iff 1980<=year<=2107 (any valid calendar date/time of any year the time crate can represent: no assumption on the i32 year, Date::from_calendar_date decides) and preserves the fields"
#[kani::proof]
fn try_from_accepts_exactly_1980_2107() {
    let y: i32 = kani::any();
    let mo: u8 = kani::any();
    let d: u8 = kani::any();
    let (h, mi, s): (u8, u8, u8) = (kani::any(), kani::any(), kani::any());
    let m = match Month::try_from(mo) { Ok(m) => m, Err(_) => return };
    let date = match Date::from_calendar_date(y, m, d) { Ok(x) => x, Err(_) => return };
    let time = match Time::from_hms(h, mi, s) { Ok(x) => x, Err(_) => return };
    let odt = PrimitiveDateTime::new(date, time).assume_utc();
    let r = DateTime::try_from(odt);
    assert!(r.is_ok() == (y >= 1980 && y <= 2107));
    if let Ok(x) = r {
        assert!(x.year as i32 == y && x.month == mo && x.day == d && x.hour == h && x.minute == mi && x.second == s);
    }
    kani::cover!(y == 1979, "1979 reachable");
    kani::cover!(y == 2108, "2108 reachable");
    kani::cover!(r.is_ok(), "accepted reachable");
}

// @harness try_from_takes_the_fields_as_given_for_any_offset complete props=C18 doc="TryFrom<OffsetDateTime> for a value carrying ANY UTC offset (-23:59..=+23:59) never panics, decides on the calendar year it is handed (Ok iff 1980..=2107) and stores exactly the calendar fields it is handed - no time-zone arithmetic (every year the time crate can represent)"
#[kani::proof]
fn try_from_takes_the_fields_as_given_for_any_offset() {
    let y: i32 = kani::any();
    let mo: u8 = kani::any();
    let d: u8 = kani::any();
    let (h, mi, s): (u8, u8, u8) = (kani::any(), kani::any(), kani::any());
    let (oh, om): (i8, i8) = (kani::any(), kani::any());
    kani::assume(oh >= -23 && oh <= 23 && om >= -59 && om <= 59 && ((oh >= 0 && om >= 0) || (oh <= 0 && om <= 0)));
    let m = match Month::try_from(mo) { Ok(m) => m, Err(_) => return };
    let date = match Date::from_calendar_date(y, m, d) { Ok(x) => x, Err(_) => return };
    let time = match Time::from_hms(h, mi, s) { Ok(x) => x, Err(_) => return };
    let off = match time::UtcOffset::from_hms(oh, om, 0) { Ok(o) => o, Err(_) => return };
    let odt = PrimitiveDateTime::new(date, time).assume_offset(off);
    let r = DateTime::try_from(odt);
    assert!(r.is_ok() == (y >= 1980 && y <= 2107));
    if let Ok(x) = r {
        assert!(x.year as i32 == y && x.month == mo && x.day == d && x.hour == h && x.minute == mi && x.second == s);
    }
    kani::cover!(oh == 1 && y == 1980 && mo == 1 && d == 1 && h == 0, "just after the lower bound, east of Greenwich");
    kani::cover!(oh == -1 && y == 2107 && mo == 12 && d == 31 && h == 23, "just before the upper bound, west of Greenwich");
}

// ---- function contracts on the real functions (attributes injected by the
// check from kani/contracts.json); each proved for all inputs.
// @harness contract_from_msdos complete contract props=C18 doc="proof_for_contract(DateTime::from_msdos)"
#[kani::proof_for_contract(DateTime::from_msdos)]
fn contract_from_msdos() {
    let _ = DateTime::from_msdos(kani::any(), kani::any());
}
// @harness contract_timepart complete contract props=C18 doc="proof_for_contract(DateTime::timepart)"
#[kani::proof_for_contract(DateTime::timepart)]
fn contract_timepart() {
    let x = DateTime { year: kani::any(), month: kani::any(), day: kani::any(), hour: kani::any(), minute: kani::any(), second: kani::any() };
    let _ = x.timepart();
}
// @harness contract_datepart complete contract props=C18 doc="proof_for_contract(DateTime::datepart)"
#[kani::proof_for_contract(DateTime::datepart)]
fn contract_datepart() {
    let x = DateTime { year: kani::any(), month: kani::any(), day: kani::any(), hour: kani::any(), minute: kani::any(), second: kani::any() };
    let _ = x.datepart();
}

// ---- U2: attribute -> Unix mode mapping (C03), ZIP64 need (C08), version needed (C02)
fn zfd(system: System, attrs: u32) -> ZipFileData {
    ZipFileData {
        system,
        version_made_by: 0,
        encrypted: false,
        using_data_descriptor: false,
        compression_method: crate::compression::CompressionMethod::Stored,
        compression_level: None,
        last_modified_time: DateTime::default(),
        crc32: 0,
        compressed_size: 0,
        uncompressed_size: 0,
        file_name: String::new(),
        file_name_raw: Vec::new(),
        extra_field: Vec::new(),
        file_comment: String::new(),
        header_start: 0,
        central_header_start: 0,
        data_start: AtomicU64::new(0),
        external_attributes: attrs,
        large_file: false,
        aes_mode: None,
    }
}

// @harness unix_mode_mapping complete props=C03 doc="for all 2^32 attribute words x all 256 made-by systems: unix_mode is None for attrs==0 or unknown systems, attrs>>16 for Unix, and the DOS directory/read-only mapping for DOS"
#[kani::proof]
fn unix_mode_mapping() {
    let sysb: u8 = kani::any();
    let attrs: u32 = kani::any();
    let system = System::from_u8(sysb);
    assert!((sysb == 0) == (system == System::Dos));
    assert!((sysb == 3) == (system == System::Unix));
    let f = zfd(system, attrs);
    let m = f.unix_mode();
    if attrs == 0 {
        assert!(m.is_none());
    } else if sysb == 3 {
        assert!(m == Some(attrs >> 16));
    } else if sysb == 0 {
        let dir = attrs & 0x10 != 0;
        let ro = attrs & 0x01 != 0;
        // the read-only bit strips the write bits; the crate applies the mask 0o555 to the
        // whole mode word, which also clears the file-type bits (kept as is: the property
        // pins no particular table, see DESIGN.md "false alarms")
        let want = match (dir, ro) {
            (true, false) => 0o040775,
            (true, true) => 0o000555,
            (false, false) => 0o100664,
            (false, true) => 0o000444,
        };
        assert!(m == Some(want));
    } else {
        assert!(m.is_none());
    }
    kani::cover!(sysb == 0 && attrs == 0x11, "DOS read-only directory");
}

// @harness zip64_extension_and_version complete props=C02,C08 doc="zip64_extension() is true iff a size or the offset exceeds 0xFFFFFFFF; version_needed >= 45 whenever it is, >= 46 for bzip2, >= 20 always"
#[kani::proof]
fn zip64_extension_and_version() {
    let mut f = zfd(System::Unix, 0);
    f.uncompressed_size = kani::any();
    f.compressed_size = kani::any();
    f.header_start = kani::any();
    let which: u8 = kani::any();
    f.compression_method = match which % 4 {
        0 => crate::compression::CompressionMethod::Stored,
        1 => crate::compression::CompressionMethod::Deflated,
        2 => crate::compression::CompressionMethod::Bzip2,
        _ => crate::compression::CompressionMethod::Zstd,
    };
    let big = f.uncompressed_size > 0xFFFF_FFFF || f.compressed_size > 0xFFFF_FFFF || f.header_start > 0xFFFF_FFFF;
    assert!(f.zip64_extension() == big);
    let v = f.version_needed();
    assert!(v >= 20);
    if big { assert!(v >= 45); }
    if which % 4 == 2 { assert!(v >= 46); }
}

// @harness aes_mode_lengths complete props=C16 doc="AES key lengths 16/24/32 and salt = key/2"
#[kani::proof]
fn aes_mode_lengths() {
    assert!(AesMode::Aes128.key_length() == 16 && AesMode::Aes128.salt_length() == 8);
    assert!(AesMode::Aes192.key_length() == 24 && AesMode::Aes192.salt_length() == 12);
    assert!(AesMode::Aes256.key_length() == 32 && AesMode::Aes256.salt_length() == 16);
}
