// @target src/aes_ctr.rs
// Kani harnesses for src/aes_ctr.rs: the private `xor` helper, which Verus leaves as an assumed
// contract (slice iterators + zip).  Injected as a #[cfg(kani)] child module of a scratch copy.
use super::*;

// @harness xor_is_bytewise_xor complete props=C16,C09 doc="for every length 0..=16 (the only lengths crypt_in_place can pass: target_len <= AES_BLOCK_SIZE - pos, a precondition Verus proves at the call site) and all byte values: xor(dest, src) leaves dest[i] == old dest[i] ^ src[i] for every i and touches nothing else; unwinding 18 > 16 with unwinding assertions on, so the proof is complete for that domain"
#[kani::proof]
#[kani::unwind(18)]
fn xor_is_bytewise_xor() {
    let d0: [u8; 16] = kani::any();
    let s: [u8; 16] = kani::any();
    let n: usize = kani::any();
    let off: usize = kani::any();
    kani::assume(n <= 16 && off <= 16 - n);
    let mut d = d0;
    // same slicing shape as the call site: a prefix of the target, a window of the key-stream buffer
    xor(&mut d[0..n], &s[off..(off + n)]);
    let i: usize = kani::any();
    kani::assume(i < 16);
    if i < n {
        assert!(d[i] == d0[i] ^ s[off + i]);
    } else {
        assert!(d[i] == d0[i]);
    }
    kani::cover!(n == 16 && off == 0, "full block");
    kani::cover!(n == 3 && off == 13, "tail of a block");
    kani::cover!(n == 0, "empty");
}

// @harness xor_length_mismatch_panics complete props=C16 doc="xor with slices of different lengths fails its assert_eq (so the Verus precondition dest.len() == src.len() is exactly the panic-freedom condition)"
#[kani::proof]
#[kani::unwind(18)]
#[kani::should_panic]
fn xor_length_mismatch_panics() {
    let mut d: [u8; 4] = kani::any();
    let s: [u8; 4] = kani::any();
    xor(&mut d[0..2], &s[0..3]);
}
