// @target src/cp437.rs
// Kani harnesses for src/cp437.rs (unit U2 `tables`: to_char; unit U3 stand-in: FromCp437).
// Injected as a `#[cfg(kani)]` child module of a scratch copy of src/cp437.rs, so the
// private `to_char` is reachable and nothing in /repo changes.
use super::*;

// Unicode code points of IBM code page 437, byte -> scalar value.
// Source: CPython 3.11.7 codec, generated at authoring time with
//   python3 -c "print([ord(c) for c in bytes(range(256)).decode('cp437')])"
// (CPython's cp437 codec is itself generated from the Unicode consortium's
// VENDORS/MICSFT/PC/CP437.TXT mapping). Bytes 0x00..=0x7F map to themselves.
// Nothing in this table was copied from /repo/src/cp437.rs.
const CP437_UNICODE: [u32; 256] = [
    0x0000, 0x0001, 0x0002, 0x0003, 0x0004, 0x0005, 0x0006, 0x0007, // 0x00
    0x0008, 0x0009, 0x000a, 0x000b, 0x000c, 0x000d, 0x000e, 0x000f, // 0x08
    0x0010, 0x0011, 0x0012, 0x0013, 0x0014, 0x0015, 0x0016, 0x0017, // 0x10
    0x0018, 0x0019, 0x001a, 0x001b, 0x001c, 0x001d, 0x001e, 0x001f, // 0x18
    0x0020, 0x0021, 0x0022, 0x0023, 0x0024, 0x0025, 0x0026, 0x0027, // 0x20
    0x0028, 0x0029, 0x002a, 0x002b, 0x002c, 0x002d, 0x002e, 0x002f, // 0x28
    0x0030, 0x0031, 0x0032, 0x0033, 0x0034, 0x0035, 0x0036, 0x0037, // 0x30
    0x0038, 0x0039, 0x003a, 0x003b, 0x003c, 0x003d, 0x003e, 0x003f, // 0x38
    0x0040, 0x0041, 0x0042, 0x0043, 0x0044, 0x0045, 0x0046, 0x0047, // 0x40
    0x0048, 0x0049, 0x004a, 0x004b, 0x004c, 0x004d, 0x004e, 0x004f, // 0x48
    0x0050, 0x0051, 0x0052, 0x0053, 0x0054, 0x0055, 0x0056, 0x0057, // 0x50
    0x0058, 0x0059, 0x005a, 0x005b, 0x005c, 0x005d, 0x005e, 0x005f, // 0x58
    0x0060, 0x0061, 0x0062, 0x0063, 0x0064, 0x0065, 0x0066, 0x0067, // 0x60
    0x0068, 0x0069, 0x006a, 0x006b, 0x006c, 0x006d, 0x006e, 0x006f, // 0x68
    0x0070, 0x0071, 0x0072, 0x0073, 0x0074, 0x0075, 0x0076, 0x0077, // 0x70
    0x0078, 0x0079, 0x007a, 0x007b, 0x007c, 0x007d, 0x007e, 0x007f, // 0x78
    0x00c7, 0x00fc, 0x00e9, 0x00e2, 0x00e4, 0x00e0, 0x00e5, 0x00e7, // 0x80
    0x00ea, 0x00eb, 0x00e8, 0x00ef, 0x00ee, 0x00ec, 0x00c4, 0x00c5, // 0x88
    0x00c9, 0x00e6, 0x00c6, 0x00f4, 0x00f6, 0x00f2, 0x00fb, 0x00f9, // 0x90
    0x00ff, 0x00d6, 0x00dc, 0x00a2, 0x00a3, 0x00a5, 0x20a7, 0x0192, // 0x98
    0x00e1, 0x00ed, 0x00f3, 0x00fa, 0x00f1, 0x00d1, 0x00aa, 0x00ba, // 0xa0
    0x00bf, 0x2310, 0x00ac, 0x00bd, 0x00bc, 0x00a1, 0x00ab, 0x00bb, // 0xa8
    0x2591, 0x2592, 0x2593, 0x2502, 0x2524, 0x2561, 0x2562, 0x2556, // 0xb0
    0x2555, 0x2563, 0x2551, 0x2557, 0x255d, 0x255c, 0x255b, 0x2510, // 0xb8
    0x2514, 0x2534, 0x252c, 0x251c, 0x2500, 0x253c, 0x255e, 0x255f, // 0xc0
    0x255a, 0x2554, 0x2569, 0x2566, 0x2560, 0x2550, 0x256c, 0x2567, // 0xc8
    0x2568, 0x2564, 0x2565, 0x2559, 0x2558, 0x2552, 0x2553, 0x256b, // 0xd0
    0x256a, 0x2518, 0x250c, 0x2588, 0x2584, 0x258c, 0x2590, 0x2580, // 0xd8
    0x03b1, 0x00df, 0x0393, 0x03c0, 0x03a3, 0x03c3, 0x00b5, 0x03c4, // 0xe0
    0x03a6, 0x0398, 0x03a9, 0x03b4, 0x221e, 0x03c6, 0x03b5, 0x2229, // 0xe8
    0x2261, 0x00b1, 0x2265, 0x2264, 0x2320, 0x2321, 0x00f7, 0x2248, // 0xf0
    0x00b0, 0x2219, 0x00b7, 0x221a, 0x207f, 0x00b2, 0x25a0, 0x00a0, // 0xf8
];

// @harness to_char_table complete props=C19,C03 doc="for all 256 bytes: to_char(b) is the Unicode scalar CPython's cp437 codec assigns to b; 0x00..=0x7F map to themselves"
#[kani::proof]
fn to_char_table() {
    let b: u8 = kani::any();
    let c = to_char(b);
    assert!(c as u32 == CP437_UNICODE[b as usize]);
    if b < 0x80 {
        assert!(c as u32 == b as u32);
    } else {
        assert!(c as u32 >= 0xa0);
    }
    // every entry is in the Basic Multilingual Plane, at most 3 UTF-8 bytes (used below)
    assert!((c as u32) <= 0x25a0);
    kani::cover!(b == 0xff && c as u32 == 0x00a0, "last entry reachable");
    kani::cover!(b == 0x9e && c as u32 == 0x20a7, "a 3-byte-UTF-8 entry reachable");
}

// UTF-8 (RFC 3629) of a scalar value below 0x10000, written independently of std: the String
// a per-byte map of to_char must produce is the concatenation of these encodings. Every CP437
// code point is <= 0x25a0 (asserted in to_char_table against the table), so three bytes suffice.
fn utf8_len(cp: u32) -> usize {
    if cp < 0x80 { 1 } else if cp < 0x800 { 2 } else { 3 }
}
fn utf8_byte(cp: u32, k: usize) -> u8 {
    if cp < 0x80 {
        cp as u8
    } else if cp < 0x800 {
        if k == 0 { 0xC0 | (cp >> 6) as u8 } else { 0x80 | (cp & 0x3f) as u8 }
    } else if k == 0 {
        0xE0 | (cp >> 12) as u8
    } else if k == 1 {
        0x80 | ((cp >> 6) & 0x3f) as u8
    } else {
        0x80 | (cp & 0x3f) as u8
    }
}

// `got` is byte for byte utf8(to_char(b0)) ++ utf8(to_char(b1)) ++ ... and nothing more.
// Straight-line (no loops added). Comparing through str::chars() or against a String built
// with String::push is equivalent but 2-4x slower to solve; chars().count() is intractable.
macro_rules! assert_is_map {
    ($got:expr, [$($b:expr),*]) => {{
        let s: &str = &$got;
        let bs = s.as_bytes();
        let mut off = 0usize;
        $( {
            let cp = to_char($b) as u32;
            assert!(cp < 0x10000 && !(0xD800 <= cp && cp < 0xE000));
            let l = utf8_len(cp);
            assert!(off + l <= bs.len());
            assert!(bs[off] == utf8_byte(cp, 0));
            if l > 1 { assert!(bs[off + 1] == utf8_byte(cp, 1)); }
            if l > 2 { assert!(bs[off + 2] == utf8_byte(cp, 2)); }
            off += l;
        } )*
        assert!(off == bs.len());
    }};
}

// The bounded harnesses enumerate each length with a concrete-length input and fully
// symbolic bytes, so that every loop in the real std code (Iterator::all, UTF-8 validation,
// String::extend/collect) unwinds completely under the given #[kani::unwind] with
// unwinding assertions on. minisat is selected because it is 2-3x faster than the default
// solver on these (measured).

// @harness from_cp437_vec_len2 bounded bound="all byte strings of length <= 2" props=C19 doc="Vec<u8>::from_cp437() is the concatenated UTF-8 of to_char over the bytes, ASCII fast path (String::from_utf8) included; real std String/iterator/UTF-8 code executed"
#[kani::proof]
#[kani::unwind(4)]
#[kani::solver(minisat)]
fn from_cp437_vec_len2() {
    let a: u8 = kani::any();
    let b: u8 = kani::any();
    assert_is_map!(Vec::<u8>::new().from_cp437(), []);
    assert_is_map!(vec![a].from_cp437(), [a]);
    assert_is_map!(vec![a, b].from_cp437(), [a, b]);
    kani::cover!(a < 0x80 && b < 0x80, "ASCII fast path, length 2");
    kani::cover!(a < 0x80 && b >= 0x80, "slow path, mixed");
    kani::cover!(a == 0x9e && b == 0xff, "slow path, 3-byte and 2-byte UTF-8");
}

// @harness from_cp437_slice_len2 bounded bound="all byte strings of length <= 2" props=C19 doc="<&[u8]>::from_cp437() is the concatenated UTF-8 of to_char over the bytes; borrowed (no allocation) exactly on the all-ASCII path"
#[kani::proof]
#[kani::unwind(4)]
#[kani::solver(minisat)]
fn from_cp437_slice_len2() {
    let a: u8 = kani::any();
    let b: u8 = kani::any();
    let e: [u8; 0] = [];
    let a1 = [a];
    let a2 = [a, b];
    assert_is_map!((&e[..]).from_cp437(), []);
    assert_is_map!((&a1[..]).from_cp437(), [a]);
    let r = (&a2[..]).from_cp437();
    assert_is_map!(r, [a, b]);
    assert!(matches!(r, ::std::borrow::Cow::Borrowed(_)) == (a < 0x80 && b < 0x80));
    kani::cover!(a < 0x80 && b < 0x80, "ASCII fast path, length 2");
    kani::cover!(a >= 0x80 && b < 0x80, "slow path, mixed");
}

// @harness from_cp437_vec_len3 bounded tier=thorough bound="all byte strings of length <= 3" props=C19 doc="Vec<u8>::from_cp437() on every byte string of length exactly 3 (lengths 0..=2: from_cp437_vec_len2)"
#[kani::proof]
#[kani::unwind(5)]
#[kani::solver(minisat)]
fn from_cp437_vec_len3() {
    let a: u8 = kani::any();
    let b: u8 = kani::any();
    let c: u8 = kani::any();
    assert_is_map!(vec![a, b, c].from_cp437(), [a, b, c]);
    kani::cover!(a < 0x80 && b < 0x80 && c < 0x80, "ASCII fast path, length 3");
    kani::cover!(a < 0x80 && b < 0x80 && c >= 0x80, "slow path, last byte non-ASCII");
}

// @harness from_cp437_slice_len3 bounded tier=thorough bound="all byte strings of length <= 3" props=C19 doc="<&[u8]>::from_cp437() on every byte string of length exactly 3 (lengths 0..=2: from_cp437_slice_len2)"
#[kani::proof]
#[kani::unwind(5)]
#[kani::solver(minisat)]
fn from_cp437_slice_len3() {
    let a: u8 = kani::any();
    let b: u8 = kani::any();
    let c: u8 = kani::any();
    let a3 = [a, b, c];
    assert_is_map!((&a3[..]).from_cp437(), [a, b, c]);
    kani::cover!(a < 0x80 && b < 0x80 && c < 0x80, "ASCII fast path, length 3");
    kani::cover!(a >= 0x80, "slow path");
}
