// @target src/compression.rs
// Kani harnesses for src/compression.rs (unit U2 `tables`). Injected as a `#[cfg(kani)]`
// child module of a scratch copy of src/compression.rs; default features (deflate, bzip2,
// zstd, aes-crypto) are on, as in Cargo.toml.
#![allow(deprecated)]
use super::*;

// @harness method_code_roundtrip complete props=C03,C01 doc="for all 65536 codes v: from_u16(v).to_u16()==v; 0,8,12,93,99 decode to Stored,Deflated,Bzip2,Zstd,Aes (APPNOTE 4.4.5 + WinZip AE-x) and every other code to Unsupported(v)"
#[kani::proof]
fn method_code_roundtrip() {
    let v: u16 = kani::any();
    let m = CompressionMethod::from_u16(v);
    assert!(m.to_u16() == v);
    match v {
        0 => assert!(m == CompressionMethod::Stored),
        8 => assert!(m == CompressionMethod::Deflated),
        12 => assert!(m == CompressionMethod::Bzip2),
        93 => assert!(m == CompressionMethod::Zstd),
        99 => assert!(m == CompressionMethod::Aes),
        _ => assert!(m == CompressionMethod::Unsupported(v)),
    }
    // the named variants are pairwise distinct from Unsupported(_) with their own code
    assert!(matches!(m, CompressionMethod::Unsupported(_)) == !(v == 0 || v == 8 || v == 12 || v == 93 || v == 99));
    kani::cover!(v == 99, "AES code reachable");
    kani::cover!(v == 9, "an unsupported code reachable");
}

// @harness method_variant_codes complete props=C03,C02 doc="to_u16 of the five named variants is 0,8,12,93,99 and from_u16 inverts it; the associated constants STORE/DEFLATE/BZIP2/ZSTD/AES carry those variants"
#[kani::proof]
fn method_variant_codes() {
    assert!(CompressionMethod::Stored.to_u16() == 0);
    assert!(CompressionMethod::Deflated.to_u16() == 8);
    assert!(CompressionMethod::Bzip2.to_u16() == 12);
    assert!(CompressionMethod::Zstd.to_u16() == 93);
    assert!(CompressionMethod::Aes.to_u16() == 99);
    assert!(CompressionMethod::STORE.to_u16() == 0 && CompressionMethod::DEFLATE.to_u16() == 8);
    assert!(CompressionMethod::BZIP2.to_u16() == 12 && CompressionMethod::ZSTD.to_u16() == 93 && CompressionMethod::AES.to_u16() == 99);
    let u: u16 = kani::any();
    let m = CompressionMethod::Unsupported(u);
    assert!(m.to_u16() == u);
}
