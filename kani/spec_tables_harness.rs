// @target src/spec.rs
// Kani harnesses for src/spec.rs (unit U2 `tables`). Injected as a `#[cfg(kani)]` child
// module of a scratch copy of src/spec.rs.
use super::*;

// @harness record_too_small_iff_saturated complete props=C08,C03 doc="for all field values: CentralDirectoryEnd::record_too_small() is true iff one of the four 16-bit fields is 0xFFFF or one of the two 32-bit fields is 0xFFFFFFFF (APPNOTE 4.4.1.4)"
#[kani::proof]
fn record_too_small_iff_saturated() {
    let e = CentralDirectoryEnd {
        disk_number: kani::any(),
        disk_with_central_directory: kani::any(),
        number_of_files_on_this_disk: kani::any(),
        number_of_files: kani::any(),
        central_directory_size: kani::any(),
        central_directory_offset: kani::any(),
        zip_file_comment: Vec::new(),
    };
    let sat16 = |x: u16| x == u16::MAX;
    let sat32 = |x: u32| x == u32::MAX;
    let want = sat16(e.disk_number)
        || sat16(e.disk_with_central_directory)
        || sat16(e.number_of_files_on_this_disk)
        || sat16(e.number_of_files)
        || sat32(e.central_directory_size)
        || sat32(e.central_directory_offset);
    assert!(e.record_too_small() == want);
    // the thresholds the rest of the crate uses are the same saturation values
    assert!(ZIP64_BYTES_THR == 0xFFFF_FFFF && ZIP64_ENTRY_THR == 0xFFFF);
    kani::cover!(e.record_too_small() && e.central_directory_offset == u32::MAX && e.number_of_files == 3, "saturated offset only");
    kani::cover!(!e.record_too_small() && e.number_of_files == 0xFFFE, "one below saturation is not too small");
    kani::cover!(e.record_too_small() && e.disk_number == 0xFFFF && e.central_directory_size == 0, "saturated disk number only");
}
