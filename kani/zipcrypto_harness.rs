// @target src/zipcrypto.rs
// Kani harnesses for src/zipcrypto.rs (unit U10 `zipcrypto`, byte step + stream wrappers; the
// CRCTABLE part of unit U2 `tables`). Injected as a `#[cfg(kani)]` child module of a scratch
// copy of src/zipcrypto.rs, so the private key fields, CRCTABLE and the private reader/writer
// fields are reachable and nothing in /repo changes.
//
// The reference below is the "Traditional PKWARE Encryption" of APPNOTE.TXT 6.1 written from
// the appnote's pseudo code, independently of the crate:
//   6.1.5  Key(0) <- 305419896, Key(1) <- 591751049, Key(2) <- 878082192;
//          loop over the password: update_keys(password(i))
//   update_keys(char): Key(0) <- crc32(key(0),char)
//                      Key(1) <- Key(1) + (Key(0) & 000000ffH)
//                      Key(1) <- Key(1) * 134775813 + 1
//                      Key(2) <- crc32(key(2),key(1) >> 24)
//   decrypt_byte():    unsigned short temp;  temp <- Key(2) | 2
//                      decrypt_byte <- (temp * (temp ^ 1)) >> 8
//   6.1.6/6.1.7        C <- buffer(i) ^ decrypt_byte(); update_keys(C)      (decryption)
//                      t <- decrypt_byte(); update_keys(P); out <- t ^ P    (encryption)
//   crc32(old_crc,char): one byte step of the reflected CRC-32 with polynomial 0xEDB88320,
//   no pre/post inversion -- computed here bit by bit, NOT with the crate's table.
use super::*;
use std::io::{Read, Write};

#[derive(Clone, Copy, PartialEq, Eq)]
struct RefKeys {
    k0: u32,
    k1: u32,
    k2: u32,
}

fn ref_crc32(old_crc: u32, ch: u8) -> u32 {
    let mut c = old_crc ^ (ch as u32);
    for _ in 0..8 {
        c = if c & 1 != 0 { (c >> 1) ^ 0xEDB8_8320 } else { c >> 1 };
    }
    c
}

fn ref_update_keys(k: RefKeys, ch: u8) -> RefKeys {
    let k0 = ref_crc32(k.k0, ch);
    let k1 = k.k1.wrapping_add(k0 & 0x0000_00ff);
    let k1 = k1.wrapping_mul(134775813).wrapping_add(1);
    let k2 = ref_crc32(k.k2, (k1 >> 24) as u8);
    RefKeys { k0, k1, k2 }
}

fn ref_decrypt_byte(k: RefKeys) -> u8 {
    // `unsigned short temp`; the product is taken in (at least) int width as C does
    let temp: u32 = ((k.k2 as u16) | 2) as u32;
    (temp.wrapping_mul(temp ^ 1) >> 8) as u8
}

fn mk(k: RefKeys) -> ZipCryptoKeys {
    ZipCryptoKeys { key_0: Wrapping(k.k0), key_1: Wrapping(k.k1), key_2: Wrapping(k.k2) }
}

fn view(k: &ZipCryptoKeys) -> RefKeys {
    RefKeys { k0: k.key_0.0, k1: k.key_1.0, k2: k.key_2.0 }
}

fn any_keys() -> RefKeys {
    RefKeys { k0: kani::any(), k1: kani::any(), k2: kani::any() }
}

// @harness crctable_is_reflected_crc32 complete props=C15,C04 doc="for all 256 indices i: CRCTABLE[i] is the reflected CRC-32 (polynomial 0xEDB88320) of the byte i computed bit by bit (8 shift steps)"
#[kani::proof]
#[kani::unwind(9)]
fn crctable_is_reflected_crc32() {
    let i: u8 = kani::any();
    assert!(CRCTABLE[i as usize] == ref_crc32(0, i));
    kani::cover!(i == 255 && CRCTABLE[i as usize] == 0x2d02ef8d, "last entry reachable");
}

// @harness crc32_step_matches_bitwise complete props=C15 doc="for all (crc: u32, b: u8): ZipCryptoKeys::crc32 (table driven) equals the bitwise reflected CRC-32 byte step"
#[kani::proof]
#[kani::unwind(9)]
fn crc32_step_matches_bitwise() {
    let c: u32 = kani::any();
    let b: u8 = kani::any();
    assert!(ZipCryptoKeys::crc32(Wrapping(c), b).0 == ref_crc32(c, b));
}

// @harness update_matches_appnote complete props=C15 doc="for all (k0,k1,k2: u32, b: u8): ZipCryptoKeys::update yields the APPNOTE 6.1 update_keys successor (bitwise CRC, *134775813+1, key1>>24 fed to key2)"
#[kani::proof]
#[kani::unwind(9)]
fn update_matches_appnote() {
    let k = any_keys();
    let b: u8 = kani::any();
    let mut z = mk(k);
    z.update(b);
    assert!(view(&z) == ref_update_keys(k, b));
    kani::cover!(k.k1 == 0xffff_ffff && (view(&z).k0 & 0xff) == 0xff, "key1 addition wraps");
}

// @harness stream_byte_matches_appnote complete props=C15 doc="for all keys: stream_byte() equals APPNOTE decrypt_byte() = ((key2|2) * ((key2|2)^1)) >> 8 on an unsigned short (the crate's `| 3` agrees with the appnote's `| 2`), depends on key2 only and leaves the keys unchanged"
#[kani::proof]
fn stream_byte_matches_appnote() {
    let k = any_keys();
    let mut z = mk(k);
    let s = z.stream_byte();
    assert!(s == ref_decrypt_byte(k));
    assert!(view(&z) == k);
    kani::cover!(k.k2 & 3 == 0, "low bits clear (| 2 and | 3 differ as operands)");
    kani::cover!(s == 0xff, "stream byte 0xff reachable");
}

// @harness decrypt_inverts_encrypt complete props=C15,C01 doc="for all keys and plaintext bytes p: encrypt_byte yields p ^ stream, decrypt_byte of that (from the same starting keys) returns p, and both leave the identical APPNOTE successor key state (keys are updated with the PLAINTEXT byte in both directions)"
#[kani::proof]
#[kani::unwind(9)]
fn decrypt_inverts_encrypt() {
    let k = any_keys();
    let p: u8 = kani::any();
    let mut e = mk(k);
    let mut d = mk(k);
    let c = e.encrypt_byte(p);
    assert!(c == p ^ ref_decrypt_byte(k));
    let q = d.decrypt_byte(c);
    assert!(q == p);
    assert!(view(&e) == view(&d));
    assert!(view(&e) == ref_update_keys(k, p));
    kani::cover!(c == p, "zero stream byte reachable");
}

// ---------------------------------------------------------------------------------------
// Stream wrappers (ZipCryptoReader::validate, ZipCryptoReaderValid::read, ZipCryptoWriter).
//
// A wrapper harness on the unmodified crate has to establish that two copies of a chain of
// byte steps (the crate's loop and the reference) agree; each step holds two 256-way table
// look-ups and two multiplications and CBMC's SAT back end does not share the two copies, so
// the cost grows with the chain length (measured: 2 steps 15-30 s, 4 steps 40-70 s, 12 steps
// 200-400+ s; the SMT back ends abort with `map::at` on std::io::Result). Therefore:
//   * real byte step, short chains (reader, 4 bytes): quick tier, labelled `bounded`;
//   * real byte step, the 12-byte header (validate): thorough tier;
//   * `*_wrapper` harnesses replace decrypt_byte / encrypt_byte by a cheap recording step
//     (kani::stub, listed under `trusted` by the runner) and prove the wrapper logic for that
//     step: which bytes are fed to the step, in which order, how often, and where the results
//     go. The wrappers use the keys only through these two methods (ZipCryptoKeys is not
//     otherwise touched in validate/read/finish), so the statement transfers to the real step,
//     which is proved against the appnote by the complete harnesses above.

// in-harness byte source: hands out `avail` bytes of `data` starting at `pos`, at most
// `max_per_call` (>= 1) per call; `fail` makes every call return an error
struct Src<const N: usize> {
    data: [u8; N],
    pos: usize,
    avail: usize,
    max_per_call: usize,
    fail: bool,
    calls: usize,
}

impl<const N: usize> Read for Src<N> {
    fn read(&mut self, buf: &mut [u8]) -> std::io::Result<usize> {
        self.calls += 1;
        if self.fail {
            return Err(std::io::Error::from(std::io::ErrorKind::Other));
        }
        let mut n = self.avail - self.pos;
        if n > buf.len() { n = buf.len(); }
        if n > self.max_per_call { n = self.max_per_call; }
        buf[..n].copy_from_slice(&self.data[self.pos..self.pos + n]);
        self.pos += n;
        Ok(n)
    }
}

// in-harness byte source for a 4-byte buffer: fills exactly the first `n` bytes, returns Ok(n)
struct Short4 {
    data: [u8; 4],
    n: usize,
    fail: bool,
}

impl Read for Short4 {
    fn read(&mut self, buf: &mut [u8]) -> std::io::Result<usize> {
        if self.fail {
            return Err(std::io::Error::from(std::io::ErrorKind::Other));
        }
        let n = self.n;
        if n > 0 { buf[0] = self.data[0]; }
        if n > 1 { buf[1] = self.data[1]; }
        if n > 2 { buf[2] = self.data[2]; }
        if n > 3 { buf[3] = self.data[3]; }
        Ok(n)
    }
}

// @harness initial_keys complete props=C15 doc="ZipCryptoKeys::new() is (0x12345678,0x23456789,0x34567890) = APPNOTE 6.1.5 (305419896,591751049,878082192); derive(&[]) == new(); derive(&[a]) and derive(&[a,b]) are the left fold of update over the password for all a,b; ZipCryptoReader::new stores derive(password) and does not read"
#[kani::proof]
#[kani::unwind(4)]
#[kani::solver(z3)] // 2 s; the SAT back ends need 35-55 s for the two-step chain
fn initial_keys() {
    let init = RefKeys { k0: 305419896, k1: 591751049, k2: 878082192 };
    assert!(init.k0 == 0x12345678 && init.k1 == 0x23456789 && init.k2 == 0x34567890);
    assert!(view(&ZipCryptoKeys::new()) == init);
    assert!(view(&ZipCryptoKeys::derive(&[])) == init);
    let a: u8 = kani::any();
    let b: u8 = kani::any();
    let mut f = ZipCryptoKeys::new();
    f.update(a);
    assert!(view(&ZipCryptoKeys::derive(&[a])) == view(&f));
    f.update(b);
    assert!(view(&ZipCryptoKeys::derive(&[a, b])) == view(&f));
    let src = Src::<1> { data: [0], pos: 0, avail: 0, max_per_call: 1, fail: false, calls: 0 };
    let r = ZipCryptoReader::new(src, &[a, b]);
    assert!(view(&r.keys) == view(&f));
    assert!(r.file.calls == 0);
}

// @harness reader_short_read_independent bounded bound="buffer of 4 bytes, inner reader returns n in 0..=4" props=C15,C09 doc="real byte step: ZipCryptoReaderValid::read over an inner reader that fills only the first n <= 4 bytes of a 4-byte buffer (rest of the buffer = arbitrary stale bytes), all keys, all bytes: returns Ok(n), out[..n] are the decryptions of exactly the n delivered bytes in order, and the key state afterwards is the state after those n byte steps -- not after the whole buffer"
#[kani::proof]
#[kani::unwind(6)]
fn reader_short_read_independent() {
    let k = any_keys();
    let data: [u8; 4] = kani::any();
    let n: usize = kani::any();
    kani::assume(n <= 4);
    let src = Short4 { data, n, fail: false };
    let mut rd = ZipCryptoReaderValid { reader: ZipCryptoReader { file: src, keys: mk(k) } };
    let stale: [u8; 4] = kani::any();
    let mut buf = stale;
    let r = rd.read(&mut buf);
    // reference: decrypt exactly the n delivered bytes, one at a time
    let mut want_keys = mk(k);
    let mut want = [0u8; 4];
    if n > 0 { want[0] = want_keys.decrypt_byte(data[0]); }
    if n > 1 { want[1] = want_keys.decrypt_byte(data[1]); }
    if n > 2 { want[2] = want_keys.decrypt_byte(data[2]); }
    if n > 3 { want[3] = want_keys.decrypt_byte(data[3]); }
    assert!(matches!(r, Ok(m) if m == n));
    assert!(view(&rd.reader.keys) == view(&want_keys));
    if n > 0 { assert!(buf[0] == want[0]); }
    if n > 1 { assert!(buf[1] == want[1]); }
    if n > 2 { assert!(buf[2] == want[2]); }
    if n > 3 { assert!(buf[3] == want[3]); }
    kani::cover!(n == 0, "empty read");
    kani::cover!(n == 2 && stale[2] != 0 && stale[3] != 0, "short read with stale tail");
    kani::cover!(n == 4, "full read");
}

// @harness reader_error_propagates bounded bound="buffer of 4 bytes" props=C11,C15 doc="an Err from the inner reader is returned as Err by ZipCryptoReaderValid::read and the keys are untouched, for all keys"
#[kani::proof]
#[kani::unwind(6)]
fn reader_error_propagates() {
    let k = any_keys();
    let src = Short4 { data: kani::any(), n: 0, fail: true };
    let mut rd = ZipCryptoReaderValid { reader: ZipCryptoReader { file: src, keys: mk(k) } };
    let mut buf: [u8; 4] = kani::any();
    let r = rd.read(&mut buf);
    assert!(r.is_err());
    assert!(view(&rd.reader.keys) == k);
    let inner = rd.into_inner();
    assert!(inner.fail);
}

// @harness validate_truncated_header complete props=C05,C11,C15 doc="ZipCryptoReader::validate over an inner reader holding fewer than 12 bytes (0..=11, any content, any keys, either validator) returns Err, never Ok and never panics"
#[kani::proof]
#[kani::unwind(14)]
fn validate_truncated_header() {
    let k = any_keys();
    let data: [u8; 12] = kani::any();
    let avail: usize = kani::any();
    kani::assume(avail < 12);
    let src = Src::<12> { data, pos: 0, avail, max_per_call: 12, fail: false, calls: 0 };
    let rd = ZipCryptoReader { file: src, keys: mk(k) };
    let validator = if kani::any() { ZipCryptoValidator::InfoZipMsdosTime(kani::any()) } else { ZipCryptoValidator::PkzipCrc32(kani::any()) };
    let r = rd.validate(validator);
    assert!(r.is_err());
    kani::cover!(avail == 11, "one byte short");
    kani::cover!(avail == 0, "empty");
}

// @harness validate_check_byte complete tier=thorough props=C15 doc="real byte step: ZipCryptoReader::validate, for all keys, all 12 header bytes, all crc/time words, both validator kinds, inner reader delivering the header in one call: Ok(Some) exactly when the 12th decrypted header byte equals crc>>24 (PkzipCrc32) or time>>8 (InfoZipMsdosTime), else Ok(None); on acceptance the keys have advanced over exactly the 12 header bytes and exactly 12 bytes were consumed"
#[kani::proof]
#[kani::unwind(14)]
fn validate_check_byte() {
    let k = any_keys();
    let data: [u8; 12] = kani::any();
    let avail: usize = kani::any();
    kani::assume(avail == 12);
    let crc: u32 = kani::any();
    let time: u16 = kani::any();
    let use_time: bool = kani::any();
    let src = Src::<12> { data, pos: 0, avail, max_per_call: 12, fail: false, calls: 0 };
    let rd = ZipCryptoReader { file: src, keys: mk(k) };
    let validator = if use_time { ZipCryptoValidator::InfoZipMsdosTime(time) } else { ZipCryptoValidator::PkzipCrc32(crc) };
    let r = rd.validate(validator);
    // reference: the 12 header bytes decrypted one at a time from the starting keys
    let mut want_keys = mk(k);
    let mut last = 0u8;
    for i in 0..12 {
        last = want_keys.decrypt_byte(data[i]);
    }
    let check: u8 = if use_time { (time >> 8) as u8 } else { (crc >> 24) as u8 };
    match r {
        Err(_) => assert!(false),
        Ok(None) => assert!(last != check),
        Ok(Some(v)) => {
            assert!(last == check);
            assert!(view(&v.reader.keys) == view(&want_keys));
            assert!(v.reader.file.pos == 12);
        }
    }
    kani::cover!(last == check && use_time, "accepted by time check byte");
    kani::cover!(last == check && !use_time, "accepted by crc check byte");
    kani::cover!(last != check, "rejected");
}

// ---- recording byte step used by the *_wrapper harnesses -------------------------------
// The three key words act as a 96-bit shift register of the bytes fed to the step (so the
// final key state determines the last 12 inputs and their order, and for fewer steps the
// remaining bits of the arbitrary initial state pin the number of steps); the returned byte
// mixes the input with the state so that a result stored in the wrong place or computed from
// the wrong state is visible.
fn rec_step(k: &mut ZipCryptoKeys, input: u8) -> u8 {
    let out = input.wrapping_add(k.key_0.0 as u8).rotate_left(3) ^ ((k.key_2.0 >> 24) as u8);
    k.key_2 = Wrapping((k.key_2.0 << 8) | (k.key_1.0 >> 24));
    k.key_1 = Wrapping((k.key_1.0 << 8) | (k.key_0.0 >> 24));
    k.key_0 = Wrapping((k.key_0.0 << 8) | input as u32);
    out
}

// @harness validate_check_byte_wrapper complete props=C15,C09 doc="recording byte step (kani::stub of decrypt_byte): ZipCryptoReader::validate over an inner reader that delivers the 12 header bytes in chunks of at most c bytes per call (c symbolic in 1..=12): feeds exactly the 12 header bytes, in order, once each, to the byte step; accepts (Ok(Some)) exactly when the 12th result equals crc>>24 (PkzipCrc32) or time>>8 (InfoZipMsdosTime), else Ok(None); consumes exactly 12 bytes"
#[kani::proof]
#[kani::unwind(14)]
#[kani::stub(ZipCryptoKeys::decrypt_byte, rec_step)]
fn validate_check_byte_wrapper() {
    let k = any_keys();
    let data: [u8; 16] = kani::any();
    let chunk: usize = kani::any();
    kani::assume(1 <= chunk && chunk <= 12);
    let crc: u32 = kani::any();
    let time: u16 = kani::any();
    let use_time: bool = kani::any();
    let src = Src::<16> { data, pos: 0, avail: 16, max_per_call: chunk, fail: false, calls: 0 };
    let rd = ZipCryptoReader { file: src, keys: mk(k) };
    let validator = if use_time { ZipCryptoValidator::InfoZipMsdosTime(time) } else { ZipCryptoValidator::PkzipCrc32(crc) };
    let r = rd.validate(validator);
    let mut want_keys = mk(k);
    let mut last = 0u8;
    for i in 0..12 {
        last = rec_step(&mut want_keys, data[i]);
    }
    let check: u8 = if use_time { (time >> 8) as u8 } else { (crc >> 24) as u8 };
    match r {
        Err(_) => assert!(false),
        Ok(None) => assert!(last != check),
        Ok(Some(v)) => {
            assert!(last == check);
            assert!(view(&v.reader.keys) == view(&want_keys));
            // the register now holds the 12 header bytes, oldest in the top byte of key_2
            assert!(v.reader.keys.key_2.0 >> 24 == data[0] as u32 && v.reader.keys.key_0.0 & 0xff == data[11] as u32);
            assert!(v.reader.file.pos == 12);
        }
    }
    kani::cover!(last == check && use_time && chunk == 5, "accepted by time check byte, 5-byte chunks");
    kani::cover!(last == check && !use_time && chunk == 12, "accepted by crc check byte, one chunk");
    kani::cover!(last != check && chunk == 1, "rejected, single-byte reads");
}

// @harness reader_short_read_wrapper bounded bound="buffer of 8 bytes, inner reader returns n in 0..=8" props=C15,C09 doc="recording byte step (kani::stub of decrypt_byte): ZipCryptoReaderValid::read feeds exactly the n delivered bytes, in order, to the byte step, stores the i-th result in out[i], leaves out[n..] alone, returns Ok(n)"
#[kani::proof]
#[kani::unwind(10)]
#[kani::stub(ZipCryptoKeys::decrypt_byte, rec_step)]
fn reader_short_read_wrapper() {
    let k = any_keys();
    let data: [u8; 8] = kani::any();
    let n: usize = kani::any();
    kani::assume(n <= 8);
    let src = Src::<8> { data, pos: 0, avail: n, max_per_call: 8, fail: false, calls: 0 };
    let mut rd = ZipCryptoReaderValid { reader: ZipCryptoReader { file: src, keys: mk(k) } };
    let stale: [u8; 8] = kani::any();
    let mut buf = stale;
    let r = rd.read(&mut buf);
    assert!(matches!(r, Ok(m) if m == n));
    assert!(rd.reader.file.calls == 1);
    let mut want_keys = mk(k);
    for i in 0..8 {
        if i < n {
            assert!(buf[i] == rec_step(&mut want_keys, data[i]));
        } else {
            assert!(buf[i] == stale[i]);
        }
    }
    assert!(view(&rd.reader.keys) == view(&want_keys));
    kani::cover!(n == 3, "short read");
    kani::cover!(n == 8, "full read");
}

// in-harness sink: appends to a fixed array, accepts at most `max_per_call` (>= 1) bytes per call
struct Sink {
    out: [u8; 16],
    len: usize,
    max_per_call: usize,
    flushed: bool,
}

impl Write for Sink {
    fn write(&mut self, buf: &[u8]) -> std::io::Result<usize> {
        let mut n = buf.len();
        if n > self.max_per_call { n = self.max_per_call; }
        self.out[self.len..self.len + n].copy_from_slice(&buf[..n]);
        self.len += n;
        self.flushed = false;
        Ok(n)
    }
    fn flush(&mut self) -> std::io::Result<()> {
        self.flushed = true;
        Ok(())
    }
}

// @harness writer_finish_wrapper bounded tier=thorough bound="buffer of 12 header bytes + 2 data bytes" props=C15,C02 doc="recording byte step (kani::stub of encrypt_byte): ZipCryptoWriter::write only buffers; finish(crc) feeds the 14 buffered bytes, with byte 11 replaced by crc>>24, in order, once each, to the byte step and the sink (accepting either everything or at most 5 bytes per call) receives exactly the 14 results in order and is flushed"
#[kani::proof]
#[kani::unwind(16)]
#[kani::stub(ZipCryptoKeys::encrypt_byte, rec_step)]
fn writer_finish_wrapper() {
    let k = any_keys();
    let content: [u8; 14] = kani::any();
    let crc: u32 = kani::any();
    let chunk: usize = if kani::any() { 5 } else { 16 };
    let mut header = Vec::with_capacity(14);
    header.extend_from_slice(&content[..12]);
    let mut w = ZipCryptoWriter {
        writer: Sink { out: [0; 16], len: 0, max_per_call: chunk, flushed: false },
        buffer: header,
        keys: mk(k),
    };
    let wr = w.write(&content[12..14]);
    assert!(matches!(wr, Ok(2)));
    assert!(w.writer.len == 0 && w.buffer.len() == 14);
    let sink = match w.finish(crc) { Ok(s) => s, Err(_) => { assert!(false); return; } };
    assert!(sink.len == 14 && sink.flushed);
    let mut ek = mk(k);
    for i in 0..14 {
        let p = if i == 11 { (crc >> 24) as u8 } else { content[i] };
        assert!(sink.out[i] == rec_step(&mut ek, p));
    }
    kani::cover!(chunk == 5, "sink accepts five bytes at a time");
    kani::cover!(chunk == 16, "sink accepts everything");
}
