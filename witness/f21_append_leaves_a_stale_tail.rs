//! C13 finding 1: an append round whose result is SHORTER than the old file leaves the old
//! end-of-central-directory record (EOCD) behind it. Readers look for the LAST EOCD in the file,
//! so they follow the stale one: the archive becomes unreadable, or is read with the old comment
//! and the old offsets.
//!
//! The result gets shorter when
//!   * the old central directory carried per-entry comments (ZipWriter drops them on re-emission),
//!   * the old archive had a ZIP64 end record + locator that this writer does not need
//!     (e.g. tests/data/zip64_demo.zip), and nothing / little is appended.
//!
//! Every test below asserts the property ("all previous entries unchanged, followed by the new
//! ones; appending nothing leaves an equivalent archive") and fails on the unchanged crate.

use std::io::{Cursor, Read, Write};
use zip::write::FileOptions;
use zip::{CompressionMethod, ZipArchive, ZipWriter};

fn crc32(data: &[u8]) -> u32 {
    let mut c = 0xFFFFFFFFu32;
    for &b in data {
        c ^= b as u32;
        for _ in 0..8 {
            c = if c & 1 != 0 { 0xEDB88320 ^ (c >> 1) } else { c >> 1 };
        }
    }
    !c
}

/// Hand-built archive of stored entries (name, content, per-entry comment).
fn build(entries: &[(&str, &[u8], &[u8])], zip64_end: bool, archive_comment: &[u8]) -> Vec<u8> {
    let mut b = Vec::new();
    let mut offs = Vec::new();
    for (name, data, _) in entries {
        offs.push(b.len() as u32);
        b.extend_from_slice(&0x04034b50u32.to_le_bytes());
        b.extend_from_slice(&[20, 0, 0, 0, 0, 0, 0x21, 0x43, 0x65, 0x47]);
        b.extend_from_slice(&crc32(data).to_le_bytes());
        b.extend_from_slice(&(data.len() as u32).to_le_bytes());
        b.extend_from_slice(&(data.len() as u32).to_le_bytes());
        b.extend_from_slice(&(name.len() as u16).to_le_bytes());
        b.extend_from_slice(&0u16.to_le_bytes());
        b.extend_from_slice(name.as_bytes());
        b.extend_from_slice(data);
    }
    let cd_start = b.len();
    for (i, (name, data, comment)) in entries.iter().enumerate() {
        b.extend_from_slice(&0x02014b50u32.to_le_bytes());
        b.extend_from_slice(&[20, 3, 20, 0, 0, 0, 0, 0, 0x21, 0x43, 0x65, 0x47]);
        b.extend_from_slice(&crc32(data).to_le_bytes());
        b.extend_from_slice(&(data.len() as u32).to_le_bytes());
        b.extend_from_slice(&(data.len() as u32).to_le_bytes());
        b.extend_from_slice(&(name.len() as u16).to_le_bytes());
        b.extend_from_slice(&0u16.to_le_bytes());
        b.extend_from_slice(&(comment.len() as u16).to_le_bytes());
        b.extend_from_slice(&[0; 4]);
        b.extend_from_slice(&(0o100644u32 << 16).to_le_bytes());
        b.extend_from_slice(&offs[i].to_le_bytes());
        b.extend_from_slice(name.as_bytes());
        b.extend_from_slice(comment);
    }
    let cd_size = b.len() - cd_start;
    if zip64_end {
        let zpos = b.len() as u64;
        b.extend_from_slice(&0x06064b50u32.to_le_bytes());
        b.extend_from_slice(&44u64.to_le_bytes());
        b.extend_from_slice(&[45, 0, 45, 0, 0, 0, 0, 0, 0, 0, 0, 0]);
        b.extend_from_slice(&(entries.len() as u64).to_le_bytes());
        b.extend_from_slice(&(entries.len() as u64).to_le_bytes());
        b.extend_from_slice(&(cd_size as u64).to_le_bytes());
        b.extend_from_slice(&(cd_start as u64).to_le_bytes());
        b.extend_from_slice(&0x07064b50u32.to_le_bytes());
        b.extend_from_slice(&0u32.to_le_bytes());
        b.extend_from_slice(&zpos.to_le_bytes());
        b.extend_from_slice(&1u32.to_le_bytes());
    }
    b.extend_from_slice(&0x06054b50u32.to_le_bytes());
    b.extend_from_slice(&[0; 4]);
    b.extend_from_slice(&(entries.len() as u16).to_le_bytes());
    b.extend_from_slice(&(entries.len() as u16).to_le_bytes());
    b.extend_from_slice(&(cd_size as u32).to_le_bytes());
    b.extend_from_slice(&(cd_start as u32).to_le_bytes());
    b.extend_from_slice(&(archive_comment.len() as u16).to_le_bytes());
    b.extend_from_slice(archive_comment);
    b
}

/// (name, content) of every entry, plus the archive comment, as the crate's reader sees them.
fn listing(bytes: &[u8]) -> (Vec<(String, Vec<u8>)>, Vec<u8>) {
    let mut a = ZipArchive::new(Cursor::new(bytes)).expect("the archive must be readable");
    let mut v = Vec::new();
    for i in 0..a.len() {
        let mut f = a.by_index(i).expect("every entry must be readable");
        let mut c = Vec::new();
        f.read_to_end(&mut c).expect("every entry must be readable");
        v.push((f.name().to_string(), c));
    }
    (v, a.comment().to_vec())
}

const WITH_COMMENTS: &[(&str, &[u8], &[u8])] = &[
    ("a.txt", b"content of a", &[b'A'; 120]),
    ("b.txt", b"content of b", &[b'B'; 120]),
];

/// Base made by a foreign tool that always writes the ZIP64 end records. Appending nothing.
#[test]
fn append_nothing_to_archive_with_unneeded_zip64_end_records() {
    let base = build(&[("a.txt", b"content of a", b"")], true, b"");
    let before = listing(&base);
    assert_eq!(before.0.len(), 1);

    let mut cur = Cursor::new(base);
    ZipWriter::new_append(&mut cur).unwrap().finish().unwrap();

    // fails: InvalidArchive("Could not find ZIP64 central directory end")
    assert_eq!(listing(cur.get_ref()), before);
}

/// Same with the archive that ships with the crate's own test-suite.
#[test]
fn append_nothing_to_zip64_demo() {
    let base = include_bytes!("data/zip64_demo.zip").to_vec();
    let before = listing(&base);
    let mut cur = Cursor::new(base);
    ZipWriter::new_append(&mut cur).unwrap().finish().unwrap();
    assert_eq!(listing(cur.get_ref()), before);
}

/// Base whose central directory has per-entry comments (e.g. CPython `ZipInfo.comment`);
/// one small entry is appended.
#[test]
fn append_small_entry_to_archive_with_entry_comments() {
    let base = build(WITH_COMMENTS, false, b"");
    let mut want = listing(&base);

    let mut cur = Cursor::new(base);
    {
        let mut w = ZipWriter::new_append(&mut cur).unwrap();
        w.start_file("c", FileOptions::default().compression_method(CompressionMethod::Stored))
            .unwrap();
        w.write_all(b"c").unwrap();
        w.finish().unwrap();
    }
    want.0.push(("c".to_string(), b"c".to_vec()));

    // fails: InvalidArchive("Invalid Central Directory header")
    assert_eq!(listing(cur.get_ref()), want);
}

/// Same base, nothing appended, only the archive comment is replaced: the old comment is read back.
#[test]
fn replace_comment_of_archive_with_entry_comments() {
    let base = build(WITH_COMMENTS, false, b"old");
    let mut want = listing(&base);

    let mut cur = Cursor::new(base);
    {
        let mut w = ZipWriter::new_append(&mut cur).unwrap();
        w.set_comment("new");
        w.finish().unwrap();
    }
    want.1 = b"new".to_vec();

    // fails: the comment is still "old"
    assert_eq!(listing(cur.get_ref()), want);
}

/// Same base behind one byte of prepended data, nothing appended: the stale EOCD makes the reader
/// add the prefix length to offsets that the rewritten directory already stores as absolute.
#[test]
fn append_nothing_to_prefixed_archive_with_entry_comments() {
    let mut base = vec![0x42u8];
    base.extend_from_slice(&build(WITH_COMMENTS, false, b""));
    let before = listing(&base);

    let mut cur = Cursor::new(base);
    ZipWriter::new_append(&mut cur).unwrap().finish().unwrap();

    // fails: InvalidArchive("Invalid local file header")
    assert_eq!(listing(cur.get_ref()), before);
}
