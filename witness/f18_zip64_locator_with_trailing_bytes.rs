//! C13 finding 2: a ZIP64 archive (more than 65535 entries) whose archive comment is replaced by
//! a SHORTER one in an append round that adds nothing can no longer be opened by `ZipArchive`.
//!
//! The rewritten directory + end records end a few bytes before the old end of the file (the
//! writer cannot truncate). The new end-of-central-directory record is found all right, but
//! `ZipArchive::get_directory_counts` looks for the ZIP64 locator at a position computed from the
//! END OF THE FILE (`End(-(20 + 22 + comment_len))`, src/read.rs:311-314) instead of 20 bytes in
//! front of the record it has just found; with trailing bytes it misses the locator, treats the
//! archive as non-ZIP64 and mis-computes the directory position.
//! An independent parser (CPython zipfile, or the few lines below) reads the result correctly.

use std::io::{Cursor, Read, Write};
use zip::write::FileOptions;
use zip::{CompressionMethod, ZipArchive, ZipWriter};

const N: usize = 65536;

#[test]
fn shorter_comment_on_zip64_archive() {
    // base: 65536 empty stored entries, comment of 10 bytes
    let mut cur = Cursor::new(Vec::new());
    {
        let mut w = ZipWriter::new(&mut cur);
        let o = FileOptions::default().compression_method(CompressionMethod::Stored);
        for i in 0..N {
            w.start_file(format!("f{i}"), o).unwrap();
        }
        w.set_comment("0123456789");
        w.finish().unwrap();
    }
    {
        let a = ZipArchive::new(Cursor::new(cur.get_ref())).unwrap();
        assert_eq!(a.len(), N);
        assert_eq!(a.comment(), b"0123456789");
    }

    // append round: no new entry, comment replaced by a shorter one
    {
        let mut w = ZipWriter::new_append(&mut cur).unwrap();
        w.set_comment("short");
        w.finish().unwrap();
    }
    let bytes = cur.into_inner();

    // independent check: last EOCD signature, locator right in front of it, ZIP64 record, N entries
    let eocd = (0..bytes.len() - 21)
        .rev()
        .find(|&p| bytes[p..p + 4] == [0x50, 0x4b, 5, 6])
        .unwrap();
    assert_eq!(&bytes[eocd + 22..eocd + 22 + 5], b"short");
    assert_eq!(bytes[eocd - 20..eocd - 16], [0x50, 0x4b, 6, 7], "locator precedes the EOCD");
    let z = u64::from_le_bytes(bytes[eocd - 12..eocd - 4].try_into().unwrap()) as usize;
    assert_eq!(bytes[z..z + 4], [0x50, 0x4b, 6, 6]);
    assert_eq!(u64::from_le_bytes(bytes[z + 32..z + 40].try_into().unwrap()), N as u64);
    let cd = u64::from_le_bytes(bytes[z + 48..z + 56].try_into().unwrap()) as usize;
    assert_eq!(bytes[cd..cd + 4], [0x50, 0x4b, 1, 2], "central directory is where the ZIP64 record says");

    // the crate's reader: fails with InvalidArchive("Invalid Central Directory header")
    let mut a = ZipArchive::new(Cursor::new(&bytes)).expect("archive must still be readable");
    assert_eq!(a.len(), N);
    assert_eq!(a.comment(), b"short");
    assert_eq!(a.by_index(N - 1).unwrap().name(), format!("f{}", N - 1));
    let mut s = String::new();
    a.by_index(0).unwrap().read_to_string(&mut s).unwrap();
    assert_eq!(s, "");
}
