// C14 - raw copy must keep the permission bits of the source entry.
//
// An entry whose Unix permission bits are 000 (`chmod 000`, recorded as mode 0o100000) loses its
// mode in `ZipWriter::raw_copy_file` / `raw_copy_file_rename`: the copy is written with all-zero
// external attributes, which read back as "no mode recorded" (`unix_mode() == None`).

use std::io::{Cursor, Read, Write};
use zip::write::FileOptions;
use zip::{CompressionMethod, ZipArchive, ZipWriter};

fn source_with_mode(mode: u32) -> ZipArchive<Cursor<Vec<u8>>> {
    let mut w = ZipWriter::new(Cursor::new(Vec::new()));
    w.start_file(
        "secret.txt",
        FileOptions::default()
            .compression_method(CompressionMethod::Deflated)
            .unix_permissions(mode),
    )
    .unwrap();
    w.write_all(b"nobody may read this, nobody may read this").unwrap();
    ZipArchive::new(w.finish().unwrap()).unwrap()
}

fn copy_of(
    src: &mut ZipArchive<Cursor<Vec<u8>>>,
    rename: Option<&str>,
    raw_handle: bool,
) -> ZipArchive<Cursor<Vec<u8>>> {
    let mut w = ZipWriter::new(Cursor::new(Vec::new()));
    w.start_file("before.txt", FileOptions::default()).unwrap();
    w.write_all(b"before").unwrap();
    let file = if raw_handle {
        src.by_index_raw(0).unwrap()
    } else {
        src.by_index(0).unwrap()
    };
    match rename {
        Some(name) => w.raw_copy_file_rename(file, name).unwrap(),
        None => w.raw_copy_file(file).unwrap(),
    }
    w.start_file("after.txt", FileOptions::default()).unwrap();
    w.write_all(b"after").unwrap();
    ZipArchive::new(w.finish().unwrap()).unwrap()
}

#[test]
fn raw_copy_keeps_permission_bits_000() {
    let mut src = source_with_mode(0o000);
    let src_mode = src.by_index(0).unwrap().unix_mode();
    // the source really records the permission bits 000 (as a regular file)
    assert_eq!(src_mode, Some(0o100000), "source entry should record mode 0o100000");

    for raw_handle in [false, true] {
        for rename in [None, Some("renamed.txt")] {
            let mut dst = copy_of(&mut src, rename, raw_handle);
            let copy = dst.by_index(1).unwrap();
            assert_eq!(copy.name(), rename.unwrap_or("secret.txt"));
            let dst_mode = copy.unix_mode();
            assert_eq!(
                dst_mode.map(|m| m & 0o777),
                src_mode.map(|m| m & 0o777),
                "C14: the permission bits of a raw copy must equal the source's: the source entry has \
                 unix_mode() = {src_mode:?} (permission bits 000), the copy (rename = {rename:?}, \
                 by_index_raw = {raw_handle}) has unix_mode() = {dst_mode:?} - the mode was lost"
            );
        }
    }
}

// The same loss for every other mode word: sanity check that the non-zero ones do survive, so
// the failure above is about the value 000 and not about the test.
#[test]
fn raw_copy_permission_bits_all_values() {
    let mut lost = Vec::new();
    for mode in 0..=0o777u32 {
        let mut src = source_with_mode(mode);
        let src_mode = src.by_index(0).unwrap().unix_mode();
        let mut dst = copy_of(&mut src, None, true);
        let dst_mode = dst.by_index(1).unwrap().unix_mode();
        if dst_mode.map(|m| m & 0o777) != src_mode.map(|m| m & 0o777) {
            lost.push(format!("{mode:03o}: source {src_mode:?} -> copy {dst_mode:?}"));
        }
    }
    assert!(
        lost.is_empty(),
        "C14: permission bits of the raw copy differ from the source's for these modes: {lost:?}"
    );
}

// What the loss means in practice: extracting the copy creates a readable file where the source
// archive yields one without any access rights.
#[cfg(unix)]
#[test]
fn extracted_raw_copy_has_the_permissions_of_the_source() {
    use std::os::unix::fs::PermissionsExt;

    let mut src = source_with_mode(0o000);
    let mut dst = copy_of(&mut src, None, true);

    let base = std::env::temp_dir().join(format!("c14_f1_{}", std::process::id()));
    let _ = std::fs::remove_dir_all(&base);
    let (src_dir, dst_dir) = (base.join("src"), base.join("dst"));
    std::fs::create_dir_all(&src_dir).unwrap();
    std::fs::create_dir_all(&dst_dir).unwrap();
    src.extract(&src_dir).unwrap();
    dst.extract(&dst_dir).unwrap();

    let src_perm = std::fs::metadata(src_dir.join("secret.txt")).unwrap().permissions().mode() & 0o777;
    let dst_perm = std::fs::metadata(dst_dir.join("secret.txt")).unwrap().permissions().mode() & 0o777;

    // make the tree removable again before asserting
    for p in [src_dir.join("secret.txt"), dst_dir.join("secret.txt")] {
        let _ = std::fs::set_permissions(&p, std::fs::Permissions::from_mode(0o600));
    }
    // the neighbours are fine and the content is the same - only the mode differs
    let mut s = String::new();
    dst.by_name("secret.txt").unwrap().read_to_string(&mut s).unwrap();
    assert_eq!(s, "nobody may read this, nobody may read this");
    let _ = std::fs::remove_dir_all(&base);

    assert_eq!(src_perm, 0o000, "extracting the source archive gives mode 000");
    assert_eq!(
        dst_perm, src_perm,
        "C14: the raw copy must carry the permission bits of the source: extracting the source \
         gives mode {src_perm:03o}, extracting the raw copy gives mode {dst_perm:03o}"
    );
}
