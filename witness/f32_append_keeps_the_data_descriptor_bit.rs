//! C15: an entry encrypted by another producer in the Info-ZIP way (general purpose bit 3 set,
//! the last byte of the 12-byte encryption header is the high byte of the DOS modification time)
//! must decrypt with the right password.  It does - until the archive goes through
//! `ZipWriter::new_append` + `finish()`: the rewritten central directory loses bit 3, so the
//! reader validates the password against the CRC instead of the time and refuses the right one.

use std::io::{Cursor, Read, Write};
use zip::write::FileOptions;
use zip::{ZipArchive, ZipWriter};

// ---------- independent implementation of the PKWARE stream cipher (APPNOTE 6.1) ----------
fn crc_table() -> [u32; 256] {
    let mut t = [0u32; 256];
    for i in 0..256u32 {
        let mut c = i;
        for _ in 0..8 {
            c = if c & 1 != 0 { 0xEDB8_8320 ^ (c >> 1) } else { c >> 1 };
        }
        t[i as usize] = c;
    }
    t
}
fn crc32(data: &[u8]) -> u32 {
    let t = crc_table();
    let mut c = 0xFFFF_FFFFu32;
    for &b in data {
        c = t[((c ^ b as u32) & 0xff) as usize] ^ (c >> 8);
    }
    !c
}
struct Keys {
    k: [u32; 3],
    t: [u32; 256],
}
impl Keys {
    fn new(pw: &[u8]) -> Keys {
        let mut k = Keys { k: [0x1234_5678, 0x2345_6789, 0x3456_7890], t: crc_table() };
        for &b in pw {
            k.update(b);
        }
        k
    }
    fn update(&mut self, b: u8) {
        self.k[0] = self.t[((self.k[0] ^ b as u32) & 0xff) as usize] ^ (self.k[0] >> 8);
        self.k[1] = self.k[1].wrapping_add(self.k[0] & 0xff).wrapping_mul(134_775_813).wrapping_add(1);
        let hi = (self.k[1] >> 24) as u8;
        self.k[2] = self.t[((self.k[2] ^ hi as u32) & 0xff) as usize] ^ (self.k[2] >> 8);
    }
    fn enc(&mut self, p: u8) -> u8 {
        let t = (self.k[2] | 2) & 0xffff;
        let c = p ^ ((t.wrapping_mul(t ^ 1)) >> 8) as u8;
        self.update(p);
        c
    }
}
fn pk_encrypt(pw: &[u8], data: &[u8]) -> Vec<u8> {
    let mut k = Keys::new(pw);
    data.iter().map(|&p| k.enc(p)).collect()
}

/// One stored entry "secret.txt" the way `zip -e` (Info-ZIP) lays it out: flags 0x0009 in both
/// headers, zero CRC/sizes in the local header, a data descriptor behind the ciphertext, and an
/// encryption header whose check bytes are the DOS time (not the CRC).
fn infozip_style_archive(password: &[u8], plaintext: &[u8], dos_time: u16) -> Vec<u8> {
    let name = b"secret.txt";
    let crc = crc32(plaintext);
    let mut plain = vec![0x11, 0x22, 0x33, 0x44, 0x55, 0x66, 0x77, 0x88, 0x99, 0xaa];
    plain.push(dos_time as u8);
    plain.push((dos_time >> 8) as u8);
    plain.extend_from_slice(plaintext);
    let body = pk_encrypt(password, &plain);
    let flags: u16 = 0x0009;
    let dos_date: u16 = 0x5821;

    let mut v = Vec::new();
    v.extend_from_slice(&0x0403_4b50u32.to_le_bytes());
    v.extend_from_slice(&20u16.to_le_bytes());
    v.extend_from_slice(&flags.to_le_bytes());
    v.extend_from_slice(&0u16.to_le_bytes()); // stored
    v.extend_from_slice(&dos_time.to_le_bytes());
    v.extend_from_slice(&dos_date.to_le_bytes());
    v.extend_from_slice(&[0u8; 12]); // crc, sizes: in the data descriptor
    v.extend_from_slice(&(name.len() as u16).to_le_bytes());
    v.extend_from_slice(&0u16.to_le_bytes());
    v.extend_from_slice(name);
    v.extend_from_slice(&body);
    v.extend_from_slice(&0x0807_4b50u32.to_le_bytes());
    v.extend_from_slice(&crc.to_le_bytes());
    v.extend_from_slice(&(body.len() as u32).to_le_bytes());
    v.extend_from_slice(&(plaintext.len() as u32).to_le_bytes());

    let cd = v.len();
    v.extend_from_slice(&0x0201_4b50u32.to_le_bytes());
    v.extend_from_slice(&0x031eu16.to_le_bytes());
    v.extend_from_slice(&20u16.to_le_bytes());
    v.extend_from_slice(&flags.to_le_bytes());
    v.extend_from_slice(&0u16.to_le_bytes());
    v.extend_from_slice(&dos_time.to_le_bytes());
    v.extend_from_slice(&dos_date.to_le_bytes());
    v.extend_from_slice(&crc.to_le_bytes());
    v.extend_from_slice(&(body.len() as u32).to_le_bytes());
    v.extend_from_slice(&(plaintext.len() as u32).to_le_bytes());
    v.extend_from_slice(&(name.len() as u16).to_le_bytes());
    v.extend_from_slice(&[0u8; 8]); // extra len, comment len, disk, internal attrs
    v.extend_from_slice(&(0o100644u32 << 16).to_le_bytes());
    v.extend_from_slice(&0u32.to_le_bytes()); // local header offset
    v.extend_from_slice(name);
    let cd_len = v.len() - cd;
    v.extend_from_slice(&0x0605_4b50u32.to_le_bytes());
    v.extend_from_slice(&[0u8; 4]);
    v.extend_from_slice(&1u16.to_le_bytes());
    v.extend_from_slice(&1u16.to_le_bytes());
    v.extend_from_slice(&(cd_len as u32).to_le_bytes());
    v.extend_from_slice(&(cd as u32).to_le_bytes());
    v.extend_from_slice(&0u16.to_le_bytes());
    v
}

fn decrypt(archive: &[u8], name: &str, password: &[u8]) -> Result<Vec<u8>, String> {
    let mut a = ZipArchive::new(Cursor::new(archive.to_vec())).map_err(|e| format!("open: {e:?}"))?;
    let mut f = a
        .by_name_decrypt(name, password)
        .map_err(|e| format!("by_name_decrypt: {e:?}"))?
        .map_err(|_| "InvalidPassword (the right password was refused)".to_string())?;
    let mut out = Vec::new();
    f.read_to_end(&mut out).map_err(|e| format!("read: {e:?}"))?;
    Ok(out)
}

#[test]
fn infozip_encrypted_entry_still_decrypts_after_new_append() {
    let password = b"correct horse";
    let plaintext = b"The Info-ZIP variant validates against the modification time.".to_vec();
    // 13:17:34 -> 0x6a31; make sure the time check byte differs from the CRC check byte, as it
    // does for 255 of 256 entries
    let dos_time: u16 = 0x6a31;
    assert_ne!((dos_time >> 8) as u8, (crc32(&plaintext) >> 24) as u8);

    let original = infozip_style_archive(password, &plaintext, dos_time);
    // the foreign archive itself is read correctly
    assert_eq!(
        decrypt(&original, "secret.txt", password),
        Ok(plaintext.clone()),
        "the hand-built Info-ZIP style archive must decrypt before anything is appended"
    );

    // append one unrelated, unencrypted entry
    let mut w = ZipWriter::new_append(Cursor::new(original.clone())).unwrap();
    w.start_file("readme.txt", FileOptions::default()).unwrap();
    w.write_all(b"hello").unwrap();
    let appended = w.finish().unwrap().into_inner();

    // the old entry's local header and ciphertext are byte for byte what they were
    let data_end = original.len() - 22 - (46 + 10);
    assert_eq!(&appended[..data_end], &original[..data_end]);

    let mut a = ZipArchive::new(Cursor::new(appended.clone())).unwrap();
    assert_eq!(a.len(), 2);
    let mut s = String::new();
    a.by_name("readme.txt").unwrap().read_to_string(&mut s).unwrap();
    assert_eq!(s, "hello");

    assert_eq!(
        decrypt(&appended, "secret.txt", password),
        Ok(plaintext),
        "C15: an entry encrypted by Info-ZIP (check byte = modification time) must still decrypt \
         with the right password after ZipWriter::new_append + finish rewrote the central directory"
    );
}

#[test]
fn new_append_keeps_the_data_descriptor_flag_of_old_entries() {
    let original = infozip_style_archive(b"pw", b"0123456789", 0x6a31);
    let mut w = ZipWriter::new_append(Cursor::new(original)).unwrap();
    let appended = w.finish().unwrap().into_inner();
    drop(w);
    // central header of the only entry: signature PK\x01\x02, flags at offset 8
    let cd = appended
        .windows(4)
        .position(|w| w == [0x50, 0x4b, 0x01, 0x02])
        .expect("central header");
    let central_flags = u16::from_le_bytes([appended[cd + 8], appended[cd + 9]]);
    let local_flags = u16::from_le_bytes([appended[6], appended[7]]);
    assert_eq!(local_flags, 0x0009);
    assert_eq!(
        central_flags & 0x0008,
        0x0008,
        "the entry still has its data descriptor (local flags {local_flags:#06x}) and its ZipCrypto \
         check byte is still the modification time, but the rewritten central header says flags \
         {central_flags:#06x}: bit 3 was dropped, readers now validate the password against the CRC"
    );
}
