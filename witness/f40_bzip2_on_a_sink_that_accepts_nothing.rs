//! C11 demo: a Bzip2 entry written to a sink that has no room left never returns.
//!
//! A sink that cannot take more bytes says so by returning `Ok(0)` from `write` - this is what the
//! standard `Cursor<&mut [u8]>` does when the slice is full, and it is the sink used by the
//! example in `ZipWriter`'s own documentation. For Stored, Deflated and Zstd entries the library
//! reports `ErrorKind::WriteZero`. For a Bzip2 entry the compressed bytes are pushed out by a loop
//! that treats `Ok(0)` as progress, so `write_all` (large entry) or `finish` / `start_file`
//! (small entry: the data is pushed out when the entry is closed) spins forever at 100 % CPU:
//! a call that returns a `Result` and never returns.
//!
//! Each scenario runs on its own thread so that the test fails instead of hanging.

use std::io::{self, Cursor, Write};
use std::sync::mpsc;
use std::thread;
use std::time::Duration;
use zip::write::FileOptions;
use zip::{CompressionMethod, ZipWriter};

/// Bytes no compressor can shrink.
fn noise(n: usize) -> Vec<u8> {
    let mut x = 0x2545_f491_4f6c_dd1du64;
    (0..n)
        .map(|_| {
            x ^= x << 13;
            x ^= x >> 7;
            x ^= x << 17;
            (x >> 32) as u8
        })
        .collect()
}

/// Writes one entry of `len` incompressible bytes into a 4 KiB `Cursor<&mut [u8]>` and closes the
/// archive; returns, per call, whether it reported an error - or `None` if the calls had not all
/// returned after 10 s.
fn run(method: CompressionMethod, len: usize) -> Option<Vec<(&'static str, Option<io::ErrorKind>)>> {
    let (tx, rx) = mpsc::channel();
    thread::spawn(move || {
        let mut room = vec![0u8; 4096];
        let mut zip = ZipWriter::new(Cursor::new(&mut room[..]));
        let mut calls = Vec::new();
        let kind = |e: zip::result::ZipError| match e {
            zip::result::ZipError::Io(e) => e.kind(),
            _ => io::ErrorKind::Other,
        };
        let r = zip.start_file("entry", FileOptions::default().compression_method(method));
        calls.push(("start_file", r.err().map(kind)));
        let r = zip.write_all(&noise(len));
        calls.push(("write_all", r.err().map(|e| e.kind())));
        let r = zip.finish().map(|_| ());
        calls.push(("finish", r.err().map(kind)));
        // (reported before the writer is dropped: its destructor closes the archive once more)
        let _ = tx.send(calls);
    });
    rx.recv_timeout(Duration::from_secs(10)).ok()
}

fn check(method: CompressionMethod, len: usize) {
    match run(method, len) {
        None => panic!(
            "C11: a {method} entry of {len} bytes was written to a full `Cursor<&mut [u8]>` (its \
             write() returns Ok(0)): every call must return, one of them with an error; but \
             start_file / write_all / finish had not returned after 10 s (endless loop)"
        ),
        Some(calls) => assert!(
            calls.iter().any(|(_, e)| e.is_some()),
            "C11: {len} incompressible bytes cannot fit a 4 KiB sink, some call must report it: {calls:?}"
        ),
    }
}

/// How the other methods behave on the same sink: the failure is reported.
#[test]
fn control_other_methods_report_a_full_sink() {
    check(CompressionMethod::Stored, 100_000);
    check(CompressionMethod::Deflated, 100_000);
    check(CompressionMethod::Zstd, 100_000);
}

/// More than one bzip2 block: the compressor hands out bytes in the middle of `write_all`.
#[test]
fn bzip2_large_entry_on_a_full_sink_returns() {
    check(CompressionMethod::Bzip2, 2_000_000);
}

/// Less than one block: everything is handed out when the entry is closed by `finish`.
#[test]
fn bzip2_small_entry_on_a_full_sink_returns() {
    check(CompressionMethod::Bzip2, 20_000);
}
