// C01 demo: an archive produced by ZipWriter cannot be read back (or is read back as a different
// archive) when the end-of-central-directory signature "PK\x05\x06" occurs behind the start of the
// real end record: in the archive comment the caller set, or across the record's own fields.
//
// spec.rs: CentralDirectoryEnd::find_and_parse scans backwards from the end of the file and parses
// at the FIRST signature match, without checking that the record's comment ends at the end of the file
// and without continuing the search when the match turns out not to be a record.

use std::io::{Cursor, Read, Write};
use zip::write::FileOptions;
use zip::{CompressionMethod, ZipArchive, ZipWriter};

fn archive_with_comment(comment: &[u8]) -> Vec<u8> {
    let mut w = ZipWriter::new(Cursor::new(Vec::new()));
    w.set_raw_comment(comment.to_vec());
    w.start_file(
        "a.txt",
        FileOptions::default().compression_method(CompressionMethod::Stored),
    )
    .unwrap();
    w.write_all(b"hello").unwrap();
    w.add_directory("dir", FileOptions::default()).unwrap();
    w.finish().unwrap().into_inner()
}

fn expect_roundtrip(comment: &[u8]) {
    let bytes = archive_with_comment(comment);
    let mut z = match ZipArchive::new(Cursor::new(bytes)) {
        Ok(z) => z,
        Err(e) => panic!(
            "property C01: an archive written with the comment {:?} must open and yield the 2 entries \
             written; ZipArchive::new returned Err({:?})",
            String::from_utf8_lossy(comment),
            e
        ),
    };
    assert_eq!(
        z.len(),
        2,
        "property C01: 2 entries were written (a.txt, dir/), the reader reports {} entries",
        z.len()
    );
    assert_eq!(
        z.comment(),
        comment,
        "property C01: the archive comment must be read back unchanged"
    );
    let mut content = Vec::new();
    z.by_index(0).unwrap().read_to_end(&mut content).unwrap();
    assert_eq!(content, b"hello", "property C01: content of a.txt");
    assert_eq!(z.by_index(1).unwrap().name(), "dir/");
}

/// A comment that merely mentions the signature: the archive cannot be opened at all
/// (observed: Err(Io(UnexpectedEof)) - the text behind the signature is read as record fields).
#[test]
fn comment_mentioning_the_end_record_signature() {
    expect_roundtrip(b"ZIP end records start with PK\x05\x06 (see APPNOTE 4.3.16), then the counts follow");
}

/// A comment that embeds a (empty) ZIP end record followed by more text: the archive opens
/// *successfully* as an EMPTY archive with an EMPTY comment - both entries are silently lost.
#[test]
fn comment_embedding_an_end_record_loses_all_entries() {
    let mut comment = b"inner: ".to_vec();
    comment.extend_from_slice(b"PK\x05\x06\0\0\0\0\0\0\0\0\0\0\0\0\0\0\0\0\0\0");
    comment.extend_from_slice(b" :inner");
    expect_roundtrip(&comment);
}

/// No signature bytes in any caller-supplied data: 19280 (0x4B50) entries, a central directory whose
/// size ends in 0x0605, and an ordinary ten-byte comment. The end record's own fields
/// (entry count 50 4B, low half of the directory size 05 06) then spell the signature ten bytes behind
/// the real start of the record, the backward scan hits that first, and the archive cannot be opened.
#[test]
fn signature_across_the_fields_of_the_real_end_record() {
    const N: usize = 0x4B50;
    let o = FileOptions::default().compression_method(CompressionMethod::Stored);
    let mut w = ZipWriter::new(Cursor::new(Vec::new()));
    w.set_raw_comment(b"0123456789".to_vec());
    // every central header takes 46 bytes + the name; names are 5 digits + '/', the last one is padded
    // so that the directory size is 0x00100605
    let fixed = N * (46 + 6);
    let pad = 0x0010_0605 - fixed;
    for i in 0..N {
        let mut name = format!("{i:05}");
        if i == N - 1 {
            name.push_str(&"x".repeat(pad));
        }
        w.add_directory(name, o).unwrap();
    }
    let bytes = w.finish().unwrap().into_inner();
    // (the premise of this test: the record of the produced archive really has these fields)
    let eocd = bytes.len() - 22 - 10;
    assert_eq!(&bytes[eocd..eocd + 4], b"PK\x05\x06");
    assert_eq!(&bytes[eocd + 10..eocd + 14], b"PK\x05\x06", "count 0x4B50 + size ..0605");

    match ZipArchive::new(Cursor::new(bytes)) {
        Err(e) => panic!(
            "property C01: an archive of 19280 directories and the comment \"0123456789\" must open; \
             ZipArchive::new returned Err({e:?})"
        ),
        Ok(mut z) => {
            assert_eq!(z.len(), N, "property C01: number of entries");
            assert_eq!(z.comment(), b"0123456789", "property C01: comment");
            assert_eq!(z.by_index(7).unwrap().name(), "00007/");
        }
    }
}
