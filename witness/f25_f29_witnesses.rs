//! F25 - F29: five defects repaired after F24 was recorded.
//! Each test passes on the repaired tree and fails on the commit in front of its `fix:` commit.
//!
//!   F25  98edbc1  a zero-length read of a zstd entry was the decoder's error instead of Ok(0)
//!   F26  25dc1c6  AES: ciphertext that ends early was a clean end-of-file (a), and an entry without
//!                 ciphertext was never authenticated (b)
//!   F27  6579909  AES + compression: end-of-file was reported as soon as the decompressor had seen
//!                 the end of its stream, the rest of the ciphertext and the authentication code
//!                 were never looked at
//!   F28  f398bb5  no ZIP64 end records when a count / offset is exactly 0xFFFF / 0xFFFFFFFF
//!   F29  e931dc8  new_append kept the ZIP64 record of an old central header and wrote it behind the
//!                 regenerated one
//!
//! Only the public API of the crate is used.  The AES fixtures are built in the test from the
//! independently produced `tests/data/aes_archive.zip` (password "helloworld"): SHA-1, HMAC and
//! PBKDF2 are implemented here, and the AES key stream of the first 26 bytes is recovered from the
//! known plaintext of a stored entry (CTR mode: key stream = plaintext xor ciphertext), so that new
//! ciphertexts with valid or invalid authentication codes can be made without an AES implementation.
#![cfg(all(feature = "aes-crypto", feature = "deflate", feature = "zstd"))]

use std::collections::HashMap;
use std::io::{self, Cursor, Read, Seek, SeekFrom, Write};
use zip::write::FileOptions;
use zip::{CompressionMethod, ZipArchive, ZipWriter};

// ------------------------------------------------------------------------------------------------
// byte-level helpers
// ------------------------------------------------------------------------------------------------

fn le16(v: u16) -> [u8; 2] {
    v.to_le_bytes()
}
fn le32(v: u32) -> [u8; 4] {
    v.to_le_bytes()
}
fn le64(v: u64) -> [u8; 8] {
    v.to_le_bytes()
}
fn crc32(data: &[u8]) -> u32 {
    let mut c = 0xFFFF_FFFFu32;
    for &x in data {
        c ^= x as u32;
        for _ in 0..8 {
            c = if c & 1 != 0 { 0xEDB8_8320 ^ (c >> 1) } else { c >> 1 };
        }
    }
    !c
}

/// The fields a local and a central header have in common.
#[derive(Clone)]
struct Hdr<'a> {
    name: &'a [u8],
    version: u16,
    flags: u16,
    method: u16,
    crc: u32,
    csize: u32,
    usize_: u32,
    extra: &'a [u8],
}
fn local_header(h: &Hdr) -> Vec<u8> {
    let mut v = Vec::new();
    v.extend_from_slice(&le32(0x0403_4b50));
    v.extend_from_slice(&le16(h.version));
    v.extend_from_slice(&le16(h.flags));
    v.extend_from_slice(&le16(h.method));
    v.extend_from_slice(&le16(0));
    v.extend_from_slice(&le16(0x21));
    v.extend_from_slice(&le32(h.crc));
    v.extend_from_slice(&le32(h.csize));
    v.extend_from_slice(&le32(h.usize_));
    v.extend_from_slice(&le16(h.name.len() as u16));
    v.extend_from_slice(&le16(h.extra.len() as u16));
    v.extend_from_slice(h.name);
    v.extend_from_slice(h.extra);
    v
}
fn central_header(h: &Hdr, offset: u32) -> Vec<u8> {
    let mut v = Vec::new();
    v.extend_from_slice(&le32(0x0201_4b50));
    v.extend_from_slice(&le16(0x0300 | h.version));
    v.extend_from_slice(&le16(h.version));
    v.extend_from_slice(&le16(h.flags));
    v.extend_from_slice(&le16(h.method));
    v.extend_from_slice(&le16(0));
    v.extend_from_slice(&le16(0x21));
    v.extend_from_slice(&le32(h.crc));
    v.extend_from_slice(&le32(h.csize));
    v.extend_from_slice(&le32(h.usize_));
    v.extend_from_slice(&le16(h.name.len() as u16));
    v.extend_from_slice(&le16(h.extra.len() as u16));
    v.extend_from_slice(&le16(0));
    v.extend_from_slice(&le16(0));
    v.extend_from_slice(&le16(0));
    v.extend_from_slice(&le32(0o100644 << 16));
    v.extend_from_slice(&le32(offset));
    v.extend_from_slice(h.name);
    v.extend_from_slice(h.extra);
    v
}
fn eocd(count: u16, cd_size: u32, cd_offset: u32, comment: &[u8]) -> Vec<u8> {
    let mut v = Vec::new();
    v.extend_from_slice(&le32(0x0605_4b50));
    v.extend_from_slice(&le16(0));
    v.extend_from_slice(&le16(0));
    v.extend_from_slice(&le16(count));
    v.extend_from_slice(&le16(count));
    v.extend_from_slice(&le32(cd_size));
    v.extend_from_slice(&le32(cd_offset));
    v.extend_from_slice(&le16(comment.len() as u16));
    v.extend_from_slice(comment);
    v
}
fn zip64_eocd_and_locator(count: u64, cd_size: u64, cd_offset: u64, own_offset: u64) -> Vec<u8> {
    let mut v = Vec::new();
    v.extend_from_slice(&le32(0x0606_4b50));
    v.extend_from_slice(&le64(44));
    v.extend_from_slice(&le16(45));
    v.extend_from_slice(&le16(45));
    v.extend_from_slice(&le32(0));
    v.extend_from_slice(&le32(0));
    v.extend_from_slice(&le64(count));
    v.extend_from_slice(&le64(count));
    v.extend_from_slice(&le64(cd_size));
    v.extend_from_slice(&le64(cd_offset));
    v.extend_from_slice(&le32(0x0706_4b50));
    v.extend_from_slice(&le32(0));
    v.extend_from_slice(&le64(own_offset));
    v.extend_from_slice(&le32(1));
    assert_eq!(v.len(), 76);
    v
}

/// A reader that hands out one byte per call (a legitimate `Read`: pipes, sockets and slow devices
/// do the same).
struct Trickle<R>(R);
impl<R: Read> Read for Trickle<R> {
    fn read(&mut self, b: &mut [u8]) -> io::Result<usize> {
        let n = b.len().min(1);
        self.0.read(&mut b[..n])
    }
}
impl<R: Seek> Seek for Trickle<R> {
    fn seek(&mut self, p: SeekFrom) -> io::Result<u64> {
        self.0.seek(p)
    }
}

/// A sparse in-memory file: only the pages that were written take memory, holes read as zeros.
/// (Lets a test place headers at 4 GiB without writing 4 GiB.)
struct Sparse {
    pages: HashMap<u64, Vec<u8>>,
    len: u64,
    pos: u64,
}
const PAGE: u64 = 4096;
impl Sparse {
    fn new() -> Sparse {
        Sparse { pages: HashMap::new(), len: 0, pos: 0 }
    }
    fn write_at(&mut self, at: u64, data: &[u8]) {
        self.seek(SeekFrom::Start(at)).unwrap();
        self.write_all(data).unwrap();
    }
}
impl Read for Sparse {
    fn read(&mut self, b: &mut [u8]) -> io::Result<usize> {
        if self.pos >= self.len || b.is_empty() {
            return Ok(0);
        }
        let within = self.pos % PAGE;
        let n = (b.len() as u64).min(self.len - self.pos).min(PAGE - within) as usize;
        match self.pages.get(&(self.pos / PAGE)) {
            Some(p) => b[..n].copy_from_slice(&p[within as usize..within as usize + n]),
            None => b[..n].iter_mut().for_each(|x| *x = 0),
        }
        self.pos += n as u64;
        Ok(n)
    }
}
impl Write for Sparse {
    fn write(&mut self, b: &[u8]) -> io::Result<usize> {
        if b.is_empty() {
            return Ok(0);
        }
        let within = self.pos % PAGE;
        let n = (b.len() as u64).min(PAGE - within) as usize;
        let page = self.pages.entry(self.pos / PAGE).or_insert_with(|| vec![0; PAGE as usize]);
        page[within as usize..within as usize + n].copy_from_slice(&b[..n]);
        self.pos += n as u64;
        self.len = self.len.max(self.pos);
        Ok(n)
    }
    fn flush(&mut self) -> io::Result<()> {
        Ok(())
    }
}
impl Seek for Sparse {
    fn seek(&mut self, p: SeekFrom) -> io::Result<u64> {
        let target = match p {
            SeekFrom::Start(n) => n as i128,
            SeekFrom::End(d) => self.len as i128 + d as i128,
            SeekFrom::Current(d) => self.pos as i128 + d as i128,
        };
        if target < 0 || target > u64::MAX as i128 {
            return Err(io::Error::new(io::ErrorKind::InvalidInput, "seek out of range"));
        }
        self.pos = target as u64;
        Ok(self.pos)
    }
}

// ------------------------------------------------------------------------------------------------
// SHA-1, HMAC-SHA1, PBKDF2-HMAC-SHA1 (for the WinZip AES key derivation and authentication code)
// ------------------------------------------------------------------------------------------------

fn sha1(data: &[u8]) -> [u8; 20] {
    let mut h: [u32; 5] = [0x6745_2301, 0xEFCD_AB89, 0x98BA_DCFE, 0x1032_5476, 0xC3D2_E1F0];
    let mut m = data.to_vec();
    m.push(0x80);
    while m.len() % 64 != 56 {
        m.push(0);
    }
    m.extend_from_slice(&((data.len() as u64) * 8).to_be_bytes());
    for chunk in m.chunks(64) {
        let mut w = [0u32; 80];
        for i in 0..16 {
            w[i] = u32::from_be_bytes([chunk[4 * i], chunk[4 * i + 1], chunk[4 * i + 2], chunk[4 * i + 3]]);
        }
        for i in 16..80 {
            w[i] = (w[i - 3] ^ w[i - 8] ^ w[i - 14] ^ w[i - 16]).rotate_left(1);
        }
        let (mut a, mut b, mut c, mut d, mut e) = (h[0], h[1], h[2], h[3], h[4]);
        for (i, wi) in w.iter().enumerate() {
            let (f, k) = match i {
                0..=19 => ((b & c) | (!b & d), 0x5A82_7999u32),
                20..=39 => (b ^ c ^ d, 0x6ED9_EBA1),
                40..=59 => ((b & c) | (b & d) | (c & d), 0x8F1B_BCDC),
                _ => (b ^ c ^ d, 0xCA62_C1D6),
            };
            let t = a.rotate_left(5).wrapping_add(f).wrapping_add(e).wrapping_add(k).wrapping_add(*wi);
            e = d;
            d = c;
            c = b.rotate_left(30);
            b = a;
            a = t;
        }
        h[0] = h[0].wrapping_add(a);
        h[1] = h[1].wrapping_add(b);
        h[2] = h[2].wrapping_add(c);
        h[3] = h[3].wrapping_add(d);
        h[4] = h[4].wrapping_add(e);
    }
    let mut out = [0u8; 20];
    for i in 0..5 {
        out[4 * i..4 * i + 4].copy_from_slice(&h[i].to_be_bytes());
    }
    out
}
fn hmac_sha1(key: &[u8], msg: &[u8]) -> [u8; 20] {
    let mut k = [0u8; 64];
    if key.len() > 64 {
        k[..20].copy_from_slice(&sha1(key));
    } else {
        k[..key.len()].copy_from_slice(key);
    }
    let mut inner: Vec<u8> = k.iter().map(|x| x ^ 0x36).collect();
    inner.extend_from_slice(msg);
    let mut outer: Vec<u8> = k.iter().map(|x| x ^ 0x5c).collect();
    outer.extend_from_slice(&sha1(&inner));
    sha1(&outer)
}
fn pbkdf2_sha1(password: &[u8], salt: &[u8], iterations: u32, len: usize) -> Vec<u8> {
    let mut out = Vec::new();
    let mut block = 1u32;
    while out.len() < len {
        let mut s = salt.to_vec();
        s.extend_from_slice(&block.to_be_bytes());
        let mut u = hmac_sha1(password, &s);
        let mut t = u;
        for _ in 1..iterations {
            u = hmac_sha1(password, &u);
            for i in 0..20 {
                t[i] ^= u[i];
            }
        }
        out.extend_from_slice(&t);
        block += 1;
    }
    out.truncate(len);
    out
}

// ------------------------------------------------------------------------------------------------
// AES fixtures
// ------------------------------------------------------------------------------------------------

const PASSWORD: &[u8] = b"helloworld";
const LOREM: &[u8] = b"Lorem ipsum dolor sit amet";

/// What is known about the AES-128 session of the entry `secret_data_128` of aes_archive.zip.
struct Aes128Session {
    /// salt (8 bytes) and password verification value (2 bytes), as they stand in the archive
    prefix: Vec<u8>,
    /// the first 26 bytes of the key stream
    key_stream: Vec<u8>,
    hmac_key: Vec<u8>,
}
impl Aes128Session {
    fn get() -> Aes128Session {
        let bytes: &[u8] = include_bytes!("data/aes_archive.zip");
        let mut a = ZipArchive::new(Cursor::new(bytes.to_vec())).expect("aes_archive.zip opens");
        let index = (0..a.len())
            .find(|&i| a.by_index_raw(i).unwrap().name() == "secret_data_128")
            .expect("entry secret_data_128");
        let mut payload = Vec::new();
        a.by_index_raw(index).unwrap().read_to_end(&mut payload).unwrap();
        assert_eq!(payload.len(), 8 + 2 + 26 + 10, "salt, verifier, 26 bytes of ciphertext, authentication code");
        // the plaintext, through the crate itself
        let mut plain = Vec::new();
        a.by_index_decrypt(index, PASSWORD).unwrap().unwrap().read_to_end(&mut plain).unwrap();
        assert_eq!(plain, LOREM);

        let derived = pbkdf2_sha1(PASSWORD, &payload[..8], 1000, 2 * 16 + 2);
        assert_eq!(&derived[32..34], &payload[8..10], "derived password verification value is the archive's");
        let s = Aes128Session {
            prefix: payload[..10].to_vec(),
            key_stream: payload[10..36].iter().zip(LOREM).map(|(c, p)| c ^ p).collect(),
            hmac_key: derived[16..32].to_vec(),
        };
        assert_eq!(&s.auth_code(&payload[10..36])[..], &payload[36..46], "HMAC-SHA1-80 here is the archive's");
        s
    }
    fn auth_code(&self, ciphertext: &[u8]) -> [u8; 10] {
        let mut c = [0u8; 10];
        c.copy_from_slice(&hmac_sha1(&self.hmac_key, ciphertext)[..10]);
        c
    }
    /// Ciphertext of up to 26 bytes of plaintext.
    fn encrypt(&self, plain: &[u8]) -> Vec<u8> {
        assert!(plain.len() <= self.key_stream.len());
        plain.iter().zip(&self.key_stream).map(|(p, k)| p ^ k).collect()
    }
    /// salt + verifier + ciphertext + authentication code
    fn payload(&self, ciphertext: &[u8], auth_code: &[u8; 10]) -> Vec<u8> {
        let mut v = self.prefix.clone();
        v.extend_from_slice(ciphertext);
        v.extend_from_slice(auth_code);
        v
    }
}

/// Header of an AE-2 / AES-128 entry whose real method is `inner_method`.
fn aes_extra(inner_method: u16) -> Vec<u8> {
    let mut e = Vec::new();
    e.extend_from_slice(&le16(0x9901));
    e.extend_from_slice(&le16(7));
    e.extend_from_slice(&le16(2));
    e.extend_from_slice(b"AE");
    e.push(1);
    e.extend_from_slice(&le16(inner_method));
    e
}
fn aes_hdr<'a>(name: &'a [u8], extra: &'a [u8], csize: u32, usize_: u32) -> Hdr<'a> {
    Hdr { name, version: 51, flags: 1, method: 99, crc: 0, csize, usize_, extra }
}
/// [local header][payload][central header][end record]
fn aes_archive(name: &[u8], inner_method: u16, payload: &[u8], usize_: u32) -> Vec<u8> {
    let extra = aes_extra(inner_method);
    let h = aes_hdr(name, &extra, payload.len() as u32, usize_);
    let mut b = local_header(&h);
    b.extend_from_slice(payload);
    let cd_offset = b.len() as u32;
    let cd = central_header(&h, 0);
    b.extend_from_slice(&cd);
    b.extend_from_slice(&eocd(1, cd.len() as u32, cd_offset, b""));
    b
}
/// [central header][end record, whose comment is: [local header][what is present of the payload]]
/// The entry is the last thing in the file, so the file can end in the middle of its data.
fn aes_archive_entry_last(name: &[u8], declared_csize: u32, present: &[u8], usize_: u32) -> Vec<u8> {
    let extra = aes_extra(0);
    let h = aes_hdr(name, &extra, declared_csize, usize_);
    let cd_len = central_header(&h, 0).len() as u32;
    let cd = central_header(&h, cd_len + 22);
    let mut comment = local_header(&h);
    comment.extend_from_slice(present);
    let mut b = cd;
    b.extend_from_slice(&eocd(1, cd_len, 0, &comment));
    b
}
fn read_aes_entry<R: Read + Seek>(reader: R) -> io::Result<Vec<u8>> {
    let mut a = ZipArchive::new(reader).expect("archive opens");
    let mut f = a.by_index_decrypt(0, PASSWORD).expect("entry opens").expect("password is accepted");
    let mut out = Vec::new();
    f.read_to_end(&mut out).map(|_| out)
}

// ------------------------------------------------------------------------------------------------
// F25
// ------------------------------------------------------------------------------------------------

// F25 (98edbc1): `read(&mut [])` is Ok(0) for every reader of the standard library and for the
// stored / deflate / bzip2 entries of this crate; a zstd entry answered with the decoder's error
// (zstd refuses to be called without room for output).
#[test]
fn f25_zero_length_read_zstd() {
    let content: Vec<u8> = (0..5000u32).map(|i| b"zero length "[(i % 12) as usize]).collect();
    let mut w = ZipWriter::new(Cursor::new(Vec::new()));
    for (name, method) in [
        ("stored", CompressionMethod::Stored),
        ("deflated", CompressionMethod::Deflated),
        ("zstd", CompressionMethod::Zstd),
    ] {
        w.start_file(name, FileOptions::default().compression_method(method)).unwrap();
        w.write_all(&content).unwrap();
    }
    let bytes = w.finish().unwrap().into_inner();
    let mut a = ZipArchive::new(Cursor::new(bytes)).unwrap();
    for name in ["stored", "deflated", "zstd"] {
        let mut f = a.by_name(name).unwrap();
        // before anything was read, in the middle, and at the end of the entry
        let r = f.read(&mut []);
        assert!(matches!(r, Ok(0)), "{name}: zero-length read of a fresh entry: {r:?}");
        let mut head = [0u8; 100];
        f.read_exact(&mut head).unwrap();
        let r = f.read(&mut []);
        assert!(matches!(r, Ok(0)), "{name}: zero-length read in the middle of an entry: {r:?}");
        let mut rest = Vec::new();
        f.read_to_end(&mut rest).unwrap_or_else(|e| panic!("{name}: entry is still readable: {e}"));
        let r = f.read(&mut []);
        assert!(matches!(r, Ok(0)), "{name}: zero-length read at the end of an entry: {r:?}");
        assert_eq!([&head[..], &rest[..]].concat(), content, "{name}: content");
    }
}

// ------------------------------------------------------------------------------------------------
// F26
// ------------------------------------------------------------------------------------------------

// F26a (25dc1c6): the entry declares 46 bytes (8 salt + 2 verifier + 26 ciphertext + 10 code) but the
// file ends after 10 bytes of ciphertext.  The AES reader took the early end of its source for the
// end of the entry: read_to_end succeeded with the first 10 bytes of the content, nothing was
// authenticated (and AE-2 entries carry no CRC), i.e. a silently truncated entry.
#[test]
fn f26a_aes_short_ciphertext_is_an_error() {
    let s = Aes128Session::get();
    let ciphertext = s.encrypt(LOREM);
    let full = s.payload(&ciphertext, &s.auth_code(&ciphertext));

    // control: the same layout with the whole payload present reads back (on both trees)
    let whole = aes_archive_entry_last(b"secret", full.len() as u32, &full, 26);
    assert_eq!(read_aes_entry(Cursor::new(whole)).expect("complete entry reads"), LOREM);

    // the file ends 16 bytes of ciphertext (and the authentication code) early
    let cut = aes_archive_entry_last(b"secret", full.len() as u32, &full[..8 + 2 + 10], 26);
    match read_aes_entry(Cursor::new(cut)) {
        Err(_) => {}
        Ok(got) => panic!(
            "ciphertext ends 16 bytes early, yet the entry read to a clean end-of-file with {} of 26 bytes ({:?}), unauthenticated",
            got.len(),
            String::from_utf8_lossy(&got)
        ),
    }
}

// F26b (25dc1c6): an entry without ciphertext still carries an authentication code (HMAC of the
// empty string under the entry's key).  It was never looked at: with `data_remaining == 0` from the
// start the reader reported end-of-file at once, so any 10 bytes passed for a valid code.
#[test]
fn f26b_aes_empty_entry_is_authenticated() {
    let s = Aes128Session::get();
    let good = s.auth_code(b"");
    // control: the genuine empty entry reads as empty (on both trees)
    let genuine = aes_archive(b"empty", 0, &s.payload(b"", &good), 0);
    assert_eq!(read_aes_entry(Cursor::new(genuine)).expect("genuine empty entry reads"), b"");

    let mut bad = good;
    bad[3] ^= 0x40;
    let forged = aes_archive(b"empty", 0, &s.payload(b"", &bad), 0);
    let r = read_aes_entry(Cursor::new(forged));
    assert!(r.is_err(), "empty AES entry with a wrong authentication code read to end-of-file: {r:?}");
}

// ------------------------------------------------------------------------------------------------
// F27
// ------------------------------------------------------------------------------------------------

/// A complete deflate stream holding `content` in one stored block (BFINAL = 1, BTYPE = 00).
fn deflate_stored_block(content: &[u8]) -> Vec<u8> {
    let mut d = vec![0x01];
    d.extend_from_slice(&le16(content.len() as u16));
    d.extend_from_slice(&le16(!(content.len() as u16)));
    d.extend_from_slice(content);
    d
}

// F27 (6579909): the authentication code of an AES entry is checked when the last byte of
// ciphertext has been read.  A decompressor stops reading when its own stream is complete, so with
// ciphertext left behind the end of the deflate stream the entry read to end-of-file without ever
// being authenticated.  Who can flip ciphertext bits (CTR mode: the same bits flip in the plaintext)
// only has to leave some ciphertext unread to have the forgery accepted.
#[test]
fn f27_compressed_aes_eof_only_after_authentication() {
    let s = Aes128Session::get();
    let message = b"attack at dawn";
    let deflated = deflate_stored_block(message); // 19 bytes
    let mut plain = deflated.clone();
    plain.extend_from_slice(b"padding"); // 7 bytes behind the end of the deflate stream
    let ciphertext = s.encrypt(&plain);
    let code = s.auth_code(&ciphertext);

    // control: the authentic entry reads back, from a plain cursor and one byte at a time (both trees)
    let authentic = aes_archive(b"orders", 8, &s.payload(&ciphertext, &code), message.len() as u32);
    assert_eq!(read_aes_entry(Cursor::new(authentic.clone())).expect("authentic entry reads"), message);
    assert_eq!(read_aes_entry(Trickle(Cursor::new(authentic))).expect("authentic entry reads bytewise"), message);

    // (a) forged entry: the attacker's own deflate stream, then more ciphertext than the
    //     decompressor's input buffer holds, then any 10 bytes in the place of the code
    let forged_message = b"retreat at noon";
    let mut forged_ct = s.encrypt(&deflate_stored_block(forged_message));
    forged_ct.extend((0..100_000u32).map(|i| (i * 31 % 251) as u8));
    let forged = aes_archive(b"orders", 8, &s.payload(&forged_ct, &[0xAA; 10]), forged_message.len() as u32);
    let mut wrong: Vec<String> = Vec::new();
    if let Ok(got) = read_aes_entry(Cursor::new(forged)) {
        wrong.push(format!(
            "(a) forged entry (no valid authentication code) read to end-of-file: {:?}",
            String::from_utf8_lossy(&got)
        ));
    }

    // (b) the authentic entry with one bit of its last ciphertext byte flipped, read from a source
    //     that delivers one byte per call: the decompressor never asks for that byte
    let mut tampered_ct = ciphertext.clone();
    *tampered_ct.last_mut().unwrap() ^= 0x01;
    let tampered = aes_archive(b"orders", 8, &s.payload(&tampered_ct, &code), message.len() as u32);
    if let Ok(got) = read_aes_entry(Trickle(Cursor::new(tampered))) {
        wrong.push(format!(
            "(b) entry with a tampered ciphertext byte read to end-of-file: {:?}",
            String::from_utf8_lossy(&got)
        ));
    }
    assert!(wrong.is_empty(), "unauthenticated data passed for the content of the entry:\n{}", wrong.join("\n"));
}

// ------------------------------------------------------------------------------------------------
// F28
// ------------------------------------------------------------------------------------------------

/// The end records of an archive without archive comment, as APPNOTE 4.3.14 - 4.3.16 lays them out.
#[derive(Debug)]
struct EndRecords {
    count: u16,
    cd_size: u32,
    cd_offset: u32,
    /// (entries, directory size, directory offset) of the ZIP64 end record the locator points to
    zip64: Option<(u64, u64, u64)>,
}
fn end_records<R: Read + Seek>(r: &mut R) -> EndRecords {
    let len = r.seek(SeekFrom::End(0)).unwrap();
    let mut e = [0u8; 22];
    r.seek(SeekFrom::Start(len - 22)).unwrap();
    r.read_exact(&mut e).unwrap();
    assert_eq!(&e[..4], b"PK\x05\x06", "end record at the end of the file");
    let u16_at = |b: &[u8], i: usize| u16::from_le_bytes([b[i], b[i + 1]]);
    let u32_at = |b: &[u8], i: usize| u32::from_le_bytes([b[i], b[i + 1], b[i + 2], b[i + 3]]);
    let u64_at = |b: &[u8], i: usize| {
        let mut x = [0u8; 8];
        x.copy_from_slice(&b[i..i + 8]);
        u64::from_le_bytes(x)
    };
    let mut zip64 = None;
    if len >= 42 {
        let mut l = [0u8; 20];
        r.seek(SeekFrom::Start(len - 42)).unwrap();
        r.read_exact(&mut l).unwrap();
        if &l[..4] == b"PK\x06\x07" {
            let mut z = [0u8; 56];
            r.seek(SeekFrom::Start(u64_at(&l, 8))).unwrap();
            r.read_exact(&mut z).unwrap();
            assert_eq!(&z[..4], b"PK\x06\x06", "the locator points to a ZIP64 end record");
            zip64 = Some((u64_at(&z, 32), u64_at(&z, 40), u64_at(&z, 48)));
        }
    }
    EndRecords { count: u16_at(&e, 10), cd_size: u32_at(&e, 12), cd_offset: u32_at(&e, 16), zip64 }
}
impl EndRecords {
    /// (entries, directory size, directory offset) as APPNOTE 4.4.1.4 says to read them: a field of
    /// the end record holding all ones stands for "the value is in the ZIP64 end record".
    fn resolved(&self) -> Result<(u64, u64, u64), String> {
        let refers = self.count == 0xFFFF || self.cd_size == 0xFFFF_FFFF || self.cd_offset == 0xFFFF_FFFF;
        match self.zip64 {
            Some(z) => Ok(z),
            None if refers => Err(format!(
                "a field of the end record holds all ones (= \"see the ZIP64 end record\") but no ZIP64 end record and locator were written: {self:?}"
            )),
            None => Ok((self.count as u64, self.cd_size as u64, self.cd_offset as u64)),
        }
    }
}

// F28 (f398bb5): 0xFFFF entries / a directory at offset 0xFFFFFFFF cannot be told in the end record,
// where these values mean "see the ZIP64 end record".  The writer compared with `>`, so at exactly
// these values it wrote the all-ones field and no ZIP64 records.  (The reader of this crate falls back
// to taking the all-ones field literally when there is no locator, so it reads such a file; a reader
// that follows APPNOTE looks for the ZIP64 record and finds none.)
#[test]
fn f28_zip64_end_records_at_exact_all_ones_values() {
    let mut wrong: Vec<String> = Vec::new();
    // (1) exactly 65535 entries
    {
        let mut w = ZipWriter::new(Cursor::new(Vec::new()));
        let o = FileOptions::default().compression_method(CompressionMethod::Stored);
        for i in 0..0xFFFFu32 {
            w.start_file(format!("{i}"), o).unwrap();
        }
        let mut c = w.finish().unwrap();
        let e = end_records(&mut c);
        assert_eq!(e.count, 0xFFFF, "(1) the end record's own count field can only say 0xFFFF");
        match e.resolved() {
            Ok((count, _, offset)) => {
                assert_eq!(count, 0xFFFF, "(1) number of entries per APPNOTE");
                assert_eq!(offset, e.cd_offset as u64, "(1) directory offset per APPNOTE");
            }
            Err(m) => wrong.push(format!("(1) 65535 entries: {m}")),
        }
        let a = ZipArchive::new(c).expect("(1) reads back");
        assert_eq!(a.len(), 0xFFFF);
    }
    // (2) central directory exactly at offset 0xFFFFFFFF: the writer is handed a (sparse) file
    //     positioned so that one small entry ends there
    {
        fn last_entry<W: Write + Seek>(w: &mut ZipWriter<W>) {
            w.start_file("last", FileOptions::default().compression_method(CompressionMethod::Stored)).unwrap();
            w.write_all(b"the entry in front of the directory").unwrap();
        }
        // how many bytes the entry takes: where the directory of an archive with just this entry starts
        let span = {
            let mut w = ZipWriter::new(Cursor::new(Vec::new()));
            last_entry(&mut w);
            let mut c = w.finish().unwrap();
            end_records(&mut c).cd_offset as u64
        };
        let mut file = Sparse::new();
        file.seek(SeekFrom::Start(0xFFFF_FFFF - span)).unwrap();
        let mut w = ZipWriter::new(file);
        last_entry(&mut w);
        let mut file = w.finish().unwrap();
        let e = end_records(&mut file);
        assert_eq!(e.cd_offset, 0xFFFF_FFFF, "(2) the directory starts at 0xFFFFFFFF");
        match e.resolved() {
            Ok((count, _, offset)) => {
                assert_eq!((count, offset), (1, 0xFFFF_FFFF), "(2) entries and directory offset per APPNOTE")
            }
            Err(m) => wrong.push(format!("(2) directory at offset 0xFFFFFFFF: {m}")),
        }
        let mut a = ZipArchive::new(file).expect("(2) reads back");
        let mut s = String::new();
        a.by_name("last").unwrap().read_to_string(&mut s).unwrap();
        assert_eq!(s, "the entry in front of the directory");
    }
    assert!(wrong.is_empty(), "end records that do not say what they should:\n{}", wrong.join("\n"));
}

// ------------------------------------------------------------------------------------------------
// F29
// ------------------------------------------------------------------------------------------------

fn zip64_record(values: &[u64]) -> Vec<u8> {
    let mut e = Vec::new();
    e.extend_from_slice(&le16(0x0001));
    e.extend_from_slice(&le16(8 * values.len() as u16));
    for v in values {
        e.extend_from_slice(&le64(*v));
    }
    e
}
fn count_zip64_records(extra: &[u8]) -> usize {
    let (mut pos, mut n) = (0, 0);
    while pos + 4 <= extra.len() {
        if extra[pos] == 1 && extra[pos + 1] == 0 {
            n += 1;
        }
        pos += 4 + u16::from_le_bytes([extra[pos + 2], extra[pos + 3]]) as usize;
    }
    n
}

// F29 (e931dc8): new_append kept the extra field of an old central header as it was read, ZIP64
// record included, and finish() wrote the regenerated ZIP64 record AND that copy.  The reader walks
// all ZIP64 records and fills every header field that (still) holds all ones from the front of each:
// with a value of exactly 0xFFFFFFFF in the first record, the second record is read into the wrong
// field.
#[test]
fn f29_append_does_not_duplicate_zip64_records() {
    let mut wrong: Vec<String> = Vec::new();
    // (A) metadata: an entry that declares 5 GiB, compressed to exactly 0xFFFFFFFF bytes (only the
    //     headers exist; nothing here reads its data)
    {
        const FIVE_GIB: u64 = 5 << 30;
        let z = zip64_record(&[FIVE_GIB, 0xFFFF_FFFF]);
        let h = Hdr { name: b"big", version: 45, flags: 0, method: 8, crc: 0x1234_5678, csize: 0xFFFF_FFFF, usize_: 0xFFFF_FFFF, extra: &z };
        let mut b = local_header(&h);
        let cd_offset = b.len() as u32;
        let cd = central_header(&h, 0);
        b.extend_from_slice(&cd);
        b.extend_from_slice(&eocd(1, cd.len() as u32, cd_offset, b""));

        let describe = |bytes: &[u8]| {
            let mut a = ZipArchive::new(Cursor::new(bytes.to_vec())).expect("opens");
            let f = a.by_name("big").expect("entry big");
            (f.size(), f.compressed_size(), f.extra_data().to_vec())
        };
        let before = describe(&b);
        assert_eq!((before.0, before.1), (FIVE_GIB, 0xFFFF_FFFF), "the fixture says what it should");

        let mut w = ZipWriter::new_append(Cursor::new(b)).expect("opens for append");
        w.start_file("new", FileOptions::default().compression_method(CompressionMethod::Stored)).unwrap();
        w.write_all(b"hello").unwrap();
        let appended = w.finish().unwrap().into_inner();

        let after = describe(&appended);
        let n = count_zip64_records(&after.2);
        if n != 1 {
            wrong.push(format!("(A) the central header of the old entry carries {n} ZIP64 records after the append"));
        }
        if (after.0, after.1) != (before.0, before.1) {
            wrong.push(format!(
                "(A) old entry after the append: size {:#x}, compressed size {:#x}; before: size {:#x}, compressed size {:#x}",
                after.0, after.1, before.0, before.1
            ));
        }
        if after.2 != before.2 {
            wrong.push(format!("(A) extra field of the old entry: {} bytes before the append, {} bytes after", before.2.len(), after.2.len()));
        }
    }
    // (B) content: an entry whose local header sits exactly at offset 0xFFFFFFFF of a (sparse) file,
    //     written by a tool that always fills in all three ZIP64 values
    {
        const H: u64 = 0xFFFF_FFFF;
        let data = b"0123456789";
        let local = Hdr { name: b"x", version: 45, flags: 0, method: 0, crc: crc32(data), csize: 10, usize_: 10, extra: b"" };
        let z = zip64_record(&[10, 10, H]);
        let central = Hdr { csize: 0xFFFF_FFFF, usize_: 0xFFFF_FFFF, extra: &z, ..local.clone() };
        let mut tail = local_header(&local);
        tail.extend_from_slice(data);
        let cd_offset = H + tail.len() as u64;
        let cd = central_header(&central, 0xFFFF_FFFF);
        tail.extend_from_slice(&cd);
        let z64_offset = cd_offset + cd.len() as u64;
        tail.extend_from_slice(&zip64_eocd_and_locator(1, cd.len() as u64, cd_offset, z64_offset));
        tail.extend_from_slice(&eocd(1, cd.len() as u32, 0xFFFF_FFFF, b""));
        let mut file = Sparse::new();
        file.write_at(H, &tail);

        let read_x = |file: &mut Sparse| -> Result<Vec<u8>, String> {
            let mut a = ZipArchive::new(file).map_err(|e| format!("open: {e}"))?;
            let mut f = a.by_name("x").map_err(|e| format!("by_name(\"x\"): {e}"))?;
            let mut out = Vec::new();
            f.read_to_end(&mut out).map_err(|e| format!("read: {e}"))?;
            Ok(out)
        };
        assert_eq!(read_x(&mut file).expect("the fixture reads"), data);

        let mut w = ZipWriter::new_append(file).expect("opens for append");
        w.start_file("new", FileOptions::default().compression_method(CompressionMethod::Stored)).unwrap();
        w.write_all(b"hello").unwrap();
        let mut file = w.finish().unwrap();

        match read_x(&mut file) {
            Ok(got) if got == data => {}
            Ok(got) => wrong.push(format!("(B) the old entry reads as {:?} after the append", String::from_utf8_lossy(&got))),
            Err(e) => wrong.push(format!("(B) the old entry no longer reads after the append: {e}")),
        }
        let mut a = ZipArchive::new(&mut file).unwrap();
        let mut s = String::new();
        a.by_name("new").unwrap().read_to_string(&mut s).unwrap();
        assert_eq!(s, "hello");
    }
    assert!(wrong.is_empty(), "an append changed an old entry:\n{}", wrong.join("\n"));
}
