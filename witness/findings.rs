// Witness programs for the defects found on the pinned tree (DESIGN.md section 8).
// Each test fails on the tree *before* the corresponding "fix:" commit and passes
// after it. They never decide a property; they are run only to replay a failed
// obligation against the real code.
#![allow(dead_code)]
use std::io::{self, Cursor, Read, Seek, SeekFrom, Write};

fn le16(v: u16) -> [u8; 2] {
    v.to_le_bytes()
}
fn le32(v: u32) -> [u8; 4] {
    v.to_le_bytes()
}

struct E<'a> {
    name: &'a [u8],
    flags: u16,
    method: u16,
    crc: u32,
    csize: u32,
    usize_: u32,
    extra: &'a [u8],
    data: &'a [u8],
}

fn mk_zip(es: &[E]) -> Vec<u8> {
    let mut out = Vec::new();
    let mut offs = Vec::new();
    for e in es {
        offs.push(out.len() as u32);
        out.extend_from_slice(&le32(0x04034b50));
        out.extend_from_slice(&le16(20));
        out.extend_from_slice(&le16(e.flags));
        out.extend_from_slice(&le16(e.method));
        out.extend_from_slice(&le16(0));
        out.extend_from_slice(&le16(0x21));
        out.extend_from_slice(&le32(e.crc));
        out.extend_from_slice(&le32(e.csize));
        out.extend_from_slice(&le32(e.usize_));
        out.extend_from_slice(&le16(e.name.len() as u16));
        out.extend_from_slice(&le16(e.extra.len() as u16));
        out.extend_from_slice(e.name);
        out.extend_from_slice(e.extra);
        out.extend_from_slice(e.data);
    }
    let cd_start = out.len() as u32;
    for (e, off) in es.iter().zip(offs.iter()) {
        out.extend_from_slice(&le32(0x02014b50));
        out.extend_from_slice(&le16(0x031e));
        out.extend_from_slice(&le16(20));
        out.extend_from_slice(&le16(e.flags));
        out.extend_from_slice(&le16(e.method));
        out.extend_from_slice(&le16(0));
        out.extend_from_slice(&le16(0x21));
        out.extend_from_slice(&le32(e.crc));
        out.extend_from_slice(&le32(e.csize));
        out.extend_from_slice(&le32(e.usize_));
        out.extend_from_slice(&le16(e.name.len() as u16));
        out.extend_from_slice(&le16(e.extra.len() as u16));
        out.extend_from_slice(&le16(0));
        out.extend_from_slice(&le16(0));
        out.extend_from_slice(&le16(0));
        out.extend_from_slice(&le32(0o100644 << 16));
        out.extend_from_slice(&le32(*off));
        out.extend_from_slice(e.name);
        out.extend_from_slice(e.extra);
    }
    let cd_size = out.len() as u32 - cd_start;
    out.extend_from_slice(&le32(0x06054b50));
    out.extend_from_slice(&le16(0));
    out.extend_from_slice(&le16(0));
    out.extend_from_slice(&le16(es.len() as u16));
    out.extend_from_slice(&le16(es.len() as u16));
    out.extend_from_slice(&le32(cd_size));
    out.extend_from_slice(&le32(cd_start));
    out.extend_from_slice(&le16(0));
    out
}

fn aes_extra(inner_method: u16) -> Vec<u8> {
    let mut x = Vec::new();
    x.extend_from_slice(&le16(0x9901));
    x.extend_from_slice(&le16(7));
    x.extend_from_slice(&le16(2)); // AE-2
    x.extend_from_slice(&le16(0x4541));
    x.push(1); // AES-128
    x.extend_from_slice(&le16(inner_method));
    x
}

// F2 (C05): AES extra field present, encryption flag clear, no password.
#[test]
fn f2_aes_extra_without_flag_by_index() {
    let x = aes_extra(0);
    let z = mk_zip(&[E { name: b"a", flags: 0, method: 99, crc: 0, csize: 30, usize_: 2, extra: &x, data: &[0u8; 30] }]);
    let mut ar = zip::ZipArchive::new(Cursor::new(z)).unwrap();
    assert!(ar.by_index(0).is_err());
    assert!(ar.by_name("a").is_err());
}

// F3 (C05): method 99 reaching make_reader.
#[test]
fn f3_method_99_stream() {
    let z = mk_zip(&[E { name: b"a", flags: 0, method: 99, crc: 0, csize: 2, usize_: 2, extra: &[], data: b"hi" }]);
    let mut c = Cursor::new(z);
    let r = zip::read::read_zipfile_from_stream(&mut c);
    assert!(r.is_err());
}
#[test]
fn f3_method_99_inner() {
    let x = aes_extra(99);
    let mut data = vec![0u8; 8 + 2 + 4 + 10];
    data[0] = 1;
    let z = mk_zip(&[E { name: b"a", flags: 1, method: 99, crc: 0, csize: data.len() as u32, usize_: 4, extra: &x, data: &data }]);
    let mut ar = zip::ZipArchive::new(Cursor::new(z)).unwrap();
    // any password: the failure must be an error or a rejected password, not a panic
    for pw in 0..=255u8 {
        match ar.by_index_decrypt(0, &[pw]) {
            Ok(Ok(mut f)) => {
                let mut v = Vec::new();
                let _ = f.read_to_end(&mut v);
            }
            _ => {}
        }
    }
}

// F4 (C05, C16): AES entry shorter than salt + verifier + authentication code.
#[test]
fn f4_aes_entry_too_short() {
    let x = aes_extra(0);
    let z = mk_zip(&[E { name: b"a", flags: 1, method: 99, crc: 0, csize: 5, usize_: 0, extra: &x, data: &[0u8; 5] }]);
    let mut ar = zip::ZipArchive::new(Cursor::new(z)).unwrap();
    let r = ar.by_index_decrypt(0, b"pw");
    assert!(r.is_err() || r.unwrap().is_err());
}

// F5 (C02, C12, C17): lengths that do not fit their 16-bit field.
#[test]
fn f5_long_name_rejected() {
    let mut w = zip::ZipWriter::new(Cursor::new(Vec::new()));
    let name = "n".repeat(70000);
    let r = w.start_file(name, zip::write::FileOptions::default().compression_method(zip::CompressionMethod::Stored));
    assert!(r.is_err(), "a 70000-byte name cannot be represented");
}
#[test]
fn f5_long_comment_rejected() {
    let mut w = zip::ZipWriter::new(Cursor::new(Vec::new()));
    w.set_raw_comment(vec![b'c'; 65539]);
    assert!(w.finish().is_err(), "a 65539-byte comment cannot be represented");
}
#[test]
fn f5_large_file_extra_near_limit() {
    let mut w = zip::ZipWriter::new(Cursor::new(Vec::new()));
    let o = zip::write::FileOptions::default().compression_method(zip::CompressionMethod::Stored).large_file(true);
    w.start_file_with_extra_data("a", o).unwrap();
    let n = 65534 - 4;
    w.write_all(&0xbeefu16.to_le_bytes()).unwrap();
    w.write_all(&(n as u16).to_le_bytes()).unwrap();
    w.write_all(&vec![0u8; n]).unwrap();
    // must be refused (20 + 65534 does not fit), not panic and not succeed
    assert!(w.end_extra_data().is_err());
    std::mem::forget(w);
}

// A sink whose k-th seek/write fails.
struct Faulty {
    c: Cursor<Vec<u8>>,
    seeks: usize,
    writes: usize,
    fail_seek: usize,
    fail_write: usize,
}
impl Write for Faulty {
    fn write(&mut self, b: &[u8]) -> io::Result<usize> {
        self.writes += 1;
        if self.writes == self.fail_write {
            return Err(io::Error::new(io::ErrorKind::Other, "injected"));
        }
        self.c.write(b)
    }
    fn flush(&mut self) -> io::Result<()> {
        Ok(())
    }
}
impl Seek for Faulty {
    fn seek(&mut self, p: SeekFrom) -> io::Result<u64> {
        self.seeks += 1;
        if self.seeks == self.fail_seek {
            return Err(io::Error::new(io::ErrorKind::Other, "injected"));
        }
        self.c.seek(p)
    }
}

// F6 (C11): a failed back-patch must not make a later call panic.
#[test]
fn f6_failed_patch_then_finish() {
    for k in 1..12 {
        for wk in [0usize, 8, 9, 10, 11, 12, 13] {
            let f = Faulty { c: Cursor::new(Vec::new()), seeks: 0, writes: 0, fail_seek: k, fail_write: wk };
            let mut w = zip::ZipWriter::new(f);
            let o = zip::write::FileOptions::default().compression_method(zip::CompressionMethod::Stored);
            let _ = w.start_file("a", o);
            let _ = w.write_all(b"hello world");
            let _ = w.start_file("b", o);
            let _ = w.write_all(b"x");
            let _ = w.finish();
            std::mem::forget(w);
        }
    }
}

// F7 (C10): the visitor receives the central-directory metadata once per entry.
#[test]
fn f7_stream_visitor_gets_metadata() {
    use zip::read::ZipFile;
    use zip::result::ZipResult;
    use zip::unstable::stream::{ZipStreamFileMetadata, ZipStreamReader, ZipStreamVisitor};
    let mut w = zip::ZipWriter::new(Cursor::new(Vec::new()));
    let o = zip::write::FileOptions::default().compression_method(zip::CompressionMethod::Stored);
    for n in ["a", "b", "c"] {
        w.start_file(n, o).unwrap();
        w.write_all(n.as_bytes()).unwrap();
    }
    let bytes = w.finish().unwrap().into_inner();
    struct V(Vec<String>, Vec<String>);
    impl ZipStreamVisitor for V {
        fn visit_file(&mut self, f: &mut ZipFile<'_>) -> ZipResult<()> {
            self.0.push(f.name().to_string());
            Ok(())
        }
        fn visit_additional_metadata(&mut self, m: &ZipStreamFileMetadata) -> ZipResult<()> {
            self.1.push(m.name().to_string());
            Ok(())
        }
    }
    let mut v = V(vec![], vec![]);
    ZipStreamReader::new(Cursor::new(bytes)).visit(&mut v).unwrap();
    assert_eq!(v.0, ["a", "b", "c"]);
    assert_eq!(v.1, ["a", "b", "c"]);
}

// F8 (C08): a value exactly 0xFFFF_FFFF next to a larger one must round-trip.
// Uses raw copy so no multi-GiB data is needed: the source archive claims the
// sizes, the copy re-emits them through the writer's central-directory code.
#[test]
fn f8_zip64_exact_threshold_roundtrip() {
    // source: ZIP64 central extra carrying usize=0xFFFFFFFF is impossible to
    // express by the saturated rule, so build a source with csize > 4GiB and
    // usize == 0xFFFF_FFFF exactly via the zip64 extra (both fields saturated).
    let mut x = Vec::new();
    x.extend_from_slice(&le16(1));
    x.extend_from_slice(&le16(16));
    x.extend_from_slice(&0xFFFF_FFFFu64.to_le_bytes()); // uncompressed
    x.extend_from_slice(&0x1_0000_0005u64.to_le_bytes()); // compressed
    let z = mk_zip(&[E { name: b"a", flags: 0, method: 0, crc: 0, csize: 0xFFFF_FFFF, usize_: 0xFFFF_FFFF, extra: &x, data: b"" }]);
    let mut src = zip::ZipArchive::new(Cursor::new(z)).unwrap();
    {
        let f = src.by_index_raw(0).unwrap();
        assert_eq!(f.size(), 0xFFFF_FFFF);
        assert_eq!(f.compressed_size(), 0x1_0000_0005);
    }
    let mut w = zip::ZipWriter::new(Cursor::new(Vec::new()));
    w.raw_copy_file(src.by_index_raw(0).unwrap()).unwrap();
    let out = w.finish().unwrap().into_inner();
    let mut back = zip::ZipArchive::new(Cursor::new(out)).unwrap();
    let f = back.by_index_raw(0).unwrap();
    assert_eq!(f.size(), 0xFFFF_FFFF, "uncompressed size");
    assert_eq!(f.compressed_size(), 0x1_0000_0005, "compressed size");
}

// F9 (C11): dropping a streamed entry whose underlying reader fails must not panic.
struct FailAfter<R>(R, usize);
impl<R: Read> Read for FailAfter<R> {
    fn read(&mut self, buf: &mut [u8]) -> io::Result<usize> {
        if self.1 == 0 {
            return Err(io::Error::new(io::ErrorKind::Other, "injected"));
        }
        let n = buf.len().min(self.1);
        let r = self.0.read(&mut buf[..n])?;
        self.1 -= r;
        Ok(r)
    }
}
#[test]
fn f9_drop_streamed_entry_on_failing_reader() {
    let mut w = zip::ZipWriter::new(Cursor::new(Vec::new()));
    let o = zip::write::FileOptions::default().compression_method(zip::CompressionMethod::Stored);
    w.start_file("a", o).unwrap();
    w.write_all(&[7u8; 100]).unwrap();
    let bytes = w.finish().unwrap().into_inner();
    let mut r = FailAfter(Cursor::new(bytes), 40);
    let f = zip::read::read_zipfile_from_stream(&mut r);
    drop(f); // must not panic
}

// F10a (C11): a seek failure in new_append must surface.
struct RW {
    c: Cursor<Vec<u8>>,
    seeks: usize,
    fail_seek: usize,
}
impl Read for RW {
    fn read(&mut self, b: &mut [u8]) -> io::Result<usize> {
        self.c.read(b)
    }
}
impl Write for RW {
    fn write(&mut self, b: &[u8]) -> io::Result<usize> {
        self.c.write(b)
    }
    fn flush(&mut self) -> io::Result<()> {
        Ok(())
    }
}
impl Seek for RW {
    fn seek(&mut self, p: SeekFrom) -> io::Result<u64> {
        self.seeks += 1;
        if self.seeks == self.fail_seek {
            // a failing device may leave the cursor anywhere
            let _ = self.c.seek(SeekFrom::Start(0));
            return Err(io::Error::new(io::ErrorKind::Other, "injected"));
        }
        self.c.seek(p)
    }
}
#[test]
fn f10a_append_seek_failure_surfaces() {
    let mut w = zip::ZipWriter::new(Cursor::new(Vec::new()));
    let o = zip::write::FileOptions::default().compression_method(zip::CompressionMethod::Stored);
    w.start_file("a", o).unwrap();
    w.write_all(b"first entry").unwrap();
    let base = w.finish().unwrap().into_inner();
    // count the seeks of a failure-free new_append
    let probe = RW { c: Cursor::new(base.clone()), seeks: 0, fail_seek: 0 };
    let mut aw = zip::ZipWriter::new_append(probe).unwrap();
    let total = {
        let rw = aw.finish().unwrap();
        rw.seeks
    };
    for k in 1..=total {
        let rw = RW { c: Cursor::new(base.clone()), seeks: 0, fail_seek: k };
        let mut aw = match zip::ZipWriter::new_append(rw) {
            Err(_) => continue,
            Ok(w) => w,
        };
        if aw.start_file("b", o).is_err() || aw.write_all(b"second").is_err() {
            std::mem::forget(aw);
            continue;
        }
        let out = match aw.finish() {
            Err(_) => {
                std::mem::forget(aw);
                continue;
            }
            Ok(rw) => rw.c.into_inner(),
        };
        // every call reported success: the result must be the failure-free one
        let mut ar = zip::ZipArchive::new(Cursor::new(out)).expect("readable");
        assert_eq!(ar.len(), 2, "fail_seek={k}");
        let mut s = String::new();
        ar.by_name("a").expect("entry a").read_to_string(&mut s).unwrap();
        assert_eq!(s, "first entry", "fail_seek={k}");
    }
}

// F11 (C03, C16): extra-field records that follow the WinZip AES record must still be read.
// The AES branch of parse_extra_field consumed its 7 payload bytes and then skipped 7 more.
#[test]
fn f11_record_after_aes_extra_is_read() {
    let mut x = aes_extra(0);
    // ZIP64 record forced on a small entry: uncompressed, compressed
    x.extend_from_slice(&le16(1));
    x.extend_from_slice(&le16(16));
    x.extend_from_slice(&7u64.to_le_bytes());
    x.extend_from_slice(&35u64.to_le_bytes());
    let data = [0u8; 35];
    let z = mk_zip(&[E { name: b"a", flags: 1, method: 99, crc: 0, csize: 0xFFFF_FFFF, usize_: 0xFFFF_FFFF, extra: &x, data: &data }]);
    let mut ar = zip::ZipArchive::new(Cursor::new(z)).unwrap();
    let f = ar.by_index_raw(0).unwrap();
    assert_eq!(f.compressed_size(), 35, "compressed size from the ZIP64 record after the AES record");
    assert_eq!(f.size(), 7, "uncompressed size from the ZIP64 record after the AES record");
}

// F10b (C11): a device fault on the seek that probes for the ZIP64 locator must surface as an
// error; it was taken for "no ZIP64 record" and the archive opened with the saturated 16-bit count.
struct SeekFault<R> {
    r: R,
    seeks: usize,
    fail: usize,
}
impl<R: Read> Read for SeekFault<R> {
    fn read(&mut self, b: &mut [u8]) -> io::Result<usize> {
        self.r.read(b)
    }
}
impl<R: Seek> Seek for SeekFault<R> {
    fn seek(&mut self, p: SeekFrom) -> io::Result<u64> {
        self.seeks += 1;
        if self.seeks == self.fail {
            return Err(io::Error::new(io::ErrorKind::Other, "injected device fault"));
        }
        self.r.seek(p)
    }
}
#[test]
fn f10b_seek_fault_before_zip64_probe_surfaces() {
    let n = 65537usize;
    let mut w = zip::ZipWriter::new(Cursor::new(Vec::new()));
    let o = zip::write::FileOptions::default().compression_method(zip::CompressionMethod::Stored);
    for i in 0..n {
        w.start_file(format!("f{i}"), o).unwrap();
    }
    let bytes = w.finish().unwrap().into_inner();
    assert_eq!(zip::ZipArchive::new(Cursor::new(bytes.clone())).unwrap().len(), n);
    for k in 1..=8 {
        let r = SeekFault { r: Cursor::new(bytes.clone()), seeks: 0, fail: k };
        match zip::ZipArchive::new(r) {
            Err(_) => {}
            Ok(a) => assert_eq!(a.len(), n, "seek #{k} failed, yet the archive opened with a different entry count"),
        }
    }
}

// F12 (C12): a refused compression level surfaces when the extra data is ended; the writer is then closed
// but still thinks it is writing extra data, and the next call (end_extra_data again, or finish) panicked in
// get_plain instead of returning an error.
#[test]
fn f12_call_after_failed_end_extra_data_does_not_panic() {
    let mut w = zip::ZipWriter::new(Cursor::new(Vec::new()));
    let o = zip::write::FileOptions::default()
        .compression_method(zip::CompressionMethod::Deflated)
        .compression_level(Some(99));
    w.start_file_with_extra_data("a", o).unwrap();
    assert!(w.end_extra_data().is_err(), "level 99 must be refused");
    // every later call must return (an error), not panic
    assert!(w.end_extra_data().is_err());
    assert!(w.finish().is_err());
    std::mem::forget(w);
}

// F13 (C12, C13): a refused start_file in append mode must not damage the last existing entry.
// start_entry closes the "raw" state in finish_file before it can fail; the finish() that follows
// then treated the last OLD entry as the open one and overwrote its CRC and sizes.
#[test]
fn f13_refused_entry_after_append_keeps_old_entries() {
    let mut w = zip::ZipWriter::new(Cursor::new(Vec::new()));
    let o = zip::write::FileOptions::default().compression_method(zip::CompressionMethod::Stored);
    w.start_file("a", o).unwrap();
    w.write_all(b"old content").unwrap();
    let base = w.finish().unwrap().into_inner();

    let mut aw = zip::ZipWriter::new_append(Cursor::new(base)).unwrap();
    assert!(aw.start_file("n".repeat(70000), o).is_err(), "unrepresentable name is refused");
    let out = aw.finish().expect("finish after a refused entry").into_inner();
    let mut ar = zip::ZipArchive::new(Cursor::new(out)).expect("readable");
    assert_eq!(ar.len(), 1);
    let mut s = String::new();
    ar.by_name("a").unwrap().read_to_string(&mut s).expect("old entry still reads");
    assert_eq!(s, "old content");
}

// F14 (C11): append to an archive whose last entry claims a header offset near u64::MAX (ZIP64 extra),
// let the first I/O call of the next start_file fail, then call finish(): the back-patch of the
// "open" entry computed header_start + 14 unchecked and panicked instead of returning an error.
#[test]
fn f14_finish_after_failed_start_in_append_mode_does_not_panic() {
    let mut x = Vec::new();
    x.extend_from_slice(&le16(1));
    x.extend_from_slice(&le16(8));
    x.extend_from_slice(&0xFFFF_FFFF_FFFF_FFF8u64.to_le_bytes()); // header offset
    let mut z = mk_zip(&[E { name: b"a", flags: 0, method: 0, crc: 0, csize: 0, usize_: 0, extra: &[], data: b"" }]);
    // patch the central record: offset field saturated + ZIP64 extra carrying the huge offset
    let cd = z.windows(4).position(|w| w == [0x50, 0x4b, 0x01, 0x02]).unwrap();
    let mut cdrec = z[cd..cd + 46 + 1].to_vec();
    cdrec[30..32].copy_from_slice(&le16(x.len() as u16));
    cdrec[42..46].copy_from_slice(&le32(0xFFFF_FFFF));
    cdrec.extend_from_slice(&x);
    let mut out = z[..cd].to_vec();
    out.extend_from_slice(&cdrec);
    let cd_size = cdrec.len() as u32;
    out.extend_from_slice(&le32(0x06054b50));
    out.extend_from_slice(&[0, 0, 0, 0]);
    out.extend_from_slice(&le16(1));
    out.extend_from_slice(&le16(1));
    out.extend_from_slice(&le32(cd_size));
    out.extend_from_slice(&le32(cd as u32));
    out.extend_from_slice(&le16(0));
    z = out;
    // fail each seek in turn (one of them is the stream_position at the start of start_entry)
    for k in 1..=12 {
        let rw = RW { c: Cursor::new(z.clone()), seeks: 0, fail_seek: k };
        let mut aw = match zip::ZipWriter::new_append(rw) { Ok(w) => w, Err(_) => continue };
        let o = zip::write::FileOptions::default().compression_method(zip::CompressionMethod::Stored);
        let _ = aw.start_file("b", o);
        let _ = aw.finish(); // must return, not panic
        std::mem::forget(aw);
    }
}

// ---- F15 (C12, C13, C14, C11): a refused finish() followed by a corrected retry must not re-patch the last closed entry
mod f15 {
    use std::io::{Cursor, Read, Write};
    use zip::write::FileOptions;
    use zip::{ZipArchive, ZipWriter, CompressionMethod};
    fn source() -> Vec<u8> {
    let mut w = ZipWriter::new(Cursor::new(Vec::new()));
    w.start_file("x.txt", FileOptions::default().compression_method(CompressionMethod::Deflated)).unwrap();
    w.write_all(&vec![b'a'; 5000]).unwrap();
    w.finish().unwrap().into_inner()
}

// F15a: a refused finish() (comment too long), then a corrected comment and a second finish():
// the raw-copied last entry must still hold its source's content.
#[test]
fn f15_retry_finish_after_refused_comment_keeps_raw_copy() {
    let src = source();
    let mut a = ZipArchive::new(Cursor::new(src)).unwrap();
    let mut w = ZipWriter::new(Cursor::new(Vec::new()));
    w.raw_copy_file(a.by_index(0).unwrap()).unwrap();
    w.set_raw_comment(vec![b'c'; 70000]);
    assert!(w.finish().is_err());
    w.set_comment("ok");
    let out = w.finish().unwrap().into_inner();
    let mut r = ZipArchive::new(Cursor::new(out)).unwrap();
    let mut f = r.by_index(0).unwrap();
    let mut v = Vec::new();
    f.read_to_end(&mut v).expect("raw copy must read back");
    assert_eq!(v, vec![b'a'; 5000]);
}

// F15b: the same for append: the last old entry must survive a refused finish() + retry.
#[test]
fn f15_retry_finish_after_refused_comment_keeps_appended_archive() {
    let src = source();
    let mut w = ZipWriter::new_append(Cursor::new(src)).unwrap();
    w.set_raw_comment(vec![b'c'; 70000]);
    assert!(w.finish().is_err());
    w.set_comment("ok");
    let out = w.finish().unwrap().into_inner();
    let mut r = ZipArchive::new(Cursor::new(out)).unwrap();
    let mut f = r.by_index(0).unwrap();
    let mut v = Vec::new();
    f.read_to_end(&mut v).expect("old entry must read back");
    assert_eq!(v, vec![b'a'; 5000]);
}

}
