//! C10 demo: `ZipStreamReader::visit` lets the destructor of each `ZipFile` skip what the visitor
//! left unread. The destructor cannot report a failure, so an I/O error of the underlying reader
//! during that skip is swallowed - and `visit` itself then carries on, parsing the next "header"
//! from the middle of the entry. With a reader whose error is not sticky (a socket read timeout,
//! `WouldBlock`, ...) `visit` can return `Ok(())` after having delivered the wrong entries.

use std::io::{self, Cursor, Read, Write};
use zip::read::ZipFile;
use zip::result::ZipResult;
use zip::unstable::stream::{ZipStreamFileMetadata, ZipStreamReader, ZipStreamVisitor};
use zip::write::FileOptions;
use zip::{CompressionMethod, ZipArchive, ZipWriter};

/// Hands out at most `chunk` bytes per call; call number `fail_at` fails once with `TimedOut`
/// without consuming anything, later calls work again.
struct FailOnce<R> {
    inner: R,
    calls: usize,
    fail_at: usize,
    chunk: usize,
}

impl<R: Read> Read for FailOnce<R> {
    fn read(&mut self, buf: &mut [u8]) -> io::Result<usize> {
        let call = self.calls;
        self.calls += 1;
        if call == self.fail_at {
            return Err(io::Error::new(io::ErrorKind::TimedOut, "injected read timeout"));
        }
        let n = self.chunk.min(buf.len());
        self.inner.read(&mut buf[..n])
    }
}

#[derive(Default, Debug)]
struct Names {
    files: Vec<String>,
    metadata: Vec<String>,
}
impl ZipStreamVisitor for Names {
    fn visit_file(&mut self, file: &mut ZipFile<'_>) -> ZipResult<()> {
        // a consumer that is only interested in the names: reads nothing of the content
        self.files.push(file.name().to_string());
        Ok(())
    }
    fn visit_additional_metadata(&mut self, metadata: &ZipStreamFileMetadata) -> ZipResult<()> {
        self.metadata.push(metadata.name().to_string());
        Ok(())
    }
}

#[test]
fn visit_reports_an_io_error_that_hits_while_an_entry_is_skipped() {
    // an archive that holds another archive as a stored entry (a jar in a jar)
    let inner = {
        let mut writer = ZipWriter::new(Cursor::new(Vec::new()));
        writer
            .start_file("inner_a", FileOptions::default().compression_method(CompressionMethod::Stored))
            .unwrap();
        writer.write_all(b"content of the inner entry").unwrap();
        writer.finish().unwrap().into_inner()
    };
    let mut writer = ZipWriter::new(Cursor::new(Vec::new()));
    writer
        .start_file("nested.zip", FileOptions::default().compression_method(CompressionMethod::Stored))
        .unwrap();
    writer.write_all(&inner).unwrap();
    writer.start_file("after.txt", FileOptions::default()).unwrap();
    writer.write_all(b"the entry behind the nested archive").unwrap();
    let bytes = writer.finish().unwrap().into_inner();

    let expected: Vec<String> = {
        let mut archive = ZipArchive::new(Cursor::new(&bytes[..])).unwrap();
        (0..archive.len())
            .map(|i| archive.by_index(i).unwrap().name().to_string())
            .collect()
    };
    assert_eq!(expected, ["nested.zip", "after.txt"]);

    let mut errors_reported = 0;
    for fail_at in 0..80 {
        let stream = FailOnce {
            inner: Cursor::new(&bytes[..]),
            calls: 0,
            fail_at,
            chunk: 512,
        };
        let mut seen = Names::default();
        match ZipStreamReader::new(stream).visit(&mut seen) {
            // the fault was reported: fine
            Err(_) => errors_reported += 1,
            // success is only acceptable with the right entries (e.g. when the fault index lies
            // behind everything `visit` reads)
            Ok(()) => assert!(
                seen.files == expected && seen.metadata == expected,
                "C10: the read #{fail_at} of the stream failed with TimedOut, so visit() must either \
                 return that error or deliver the seekable reader's entries {expected:?} (files and \
                 then metadata); it returned Ok(()) after delivering files {:?} and metadata {:?}",
                seen.files,
                seen.metadata
            ),
        }
    }
    assert!(errors_reported > 0);
}
