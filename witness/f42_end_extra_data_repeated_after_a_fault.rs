//! C17: a transient I/O fault inside `end_extra_data` / `end_local_start_central_extra_data`
//! returns an error, but part of the work is kept (the data start was already moved, the
//! stream position is wherever the fault left it). The repeated call then reports success,
//! writes the extra data a second time and puts the entry's data where the local header does
//! not point: the local extra data is not the supplied one, the reported (aligned) data start
//! is not the one the reader finds, and the content does not round-trip.

use std::cell::Cell;
use std::io::{self, Cursor, Read, Seek, SeekFrom, Write};
use std::rc::Rc;
use zip::write::FileOptions;
use zip::{CompressionMethod, ZipArchive, ZipWriter};

/// A sink in which exactly one I/O call (the one with index `fail_at`) fails; the call has no
/// effect. All other calls are passed on to the cursor.
struct Flaky {
    inner: Cursor<Vec<u8>>,
    calls: Rc<Cell<usize>>,
    fail_at: Rc<Cell<usize>>,
}
impl Flaky {
    fn faulty(&mut self) -> bool {
        let c = self.calls.get();
        self.calls.set(c + 1);
        c == self.fail_at.get()
    }
}
impl Write for Flaky {
    fn write(&mut self, buf: &[u8]) -> io::Result<usize> {
        if self.faulty() {
            return Err(io::Error::new(io::ErrorKind::Other, "transient write fault"));
        }
        self.inner.write(buf)
    }
    fn flush(&mut self) -> io::Result<()> {
        Ok(())
    }
}
impl Seek for Flaky {
    fn seek(&mut self, p: SeekFrom) -> io::Result<u64> {
        if self.faulty() {
            return Err(io::Error::new(io::ErrorKind::Other, "transient seek fault"));
        }
        self.inner.seek(p)
    }
}

const LOCAL: [u8; 9] = [0xef, 0xbe, 5, 0, 1, 2, 3, 4, 5];
const CONTENT: &[u8] = b"the content of the entry with extra data";

/// `None`: the call index lies behind the calls of the operation. `Some(Ok)`: fine (also an
/// honest error of the repeated call is fine). `Some(Err(msg))`: success with a wrong result.
fn extra_data_run(k: usize, large: bool, method: CompressionMethod) -> Option<Result<(), String>> {
    let calls = Rc::new(Cell::new(0));
    let fail_at = Rc::new(Cell::new(usize::MAX));
    let sink = Flaky {
        inner: Cursor::new(Vec::new()),
        calls: calls.clone(),
        fail_at: fail_at.clone(),
    };
    let mut w = ZipWriter::new(sink);
    let o = FileOptions::default().compression_method(method).large_file(large);
    w.start_file("first", o).unwrap();
    w.write_all(b"first content").unwrap();
    w.start_file_with_extra_data("e", o).unwrap();
    w.write_all(&LOCAL).unwrap();

    fail_at.set(calls.get() + k);
    if w.end_extra_data().is_ok() {
        fail_at.set(usize::MAX);
        return None;
    }
    // The fault is over. The caller repeats the call that failed.
    let reported = match w.end_extra_data() {
        Ok(data_start) => data_start,
        Err(_) => return Some(Ok(())),
    };
    w.write_all(CONTENT).unwrap();
    let bytes = w.finish().unwrap().inner.into_inner();

    let mut a = ZipArchive::new(Cursor::new(bytes.clone())).unwrap();
    let mut f = a.by_name("e").unwrap();
    let header = f.header_start() as usize;
    let found = f.data_start();
    let reserved = if large { 20 } else { 0 };
    let stored = &bytes[header + 30 + 1 + reserved..found as usize];
    let mut problems = Vec::new();
    if stored != LOCAL {
        problems.push(format!("local header holds {stored:?} instead of the supplied {LOCAL:?}"));
    }
    if found != reported {
        problems.push(format!(
            "end_extra_data reported the data start {reported}, the reader finds {found}"
        ));
    }
    let mut got = Vec::new();
    match f.read_to_end(&mut got) {
        Err(e) => problems.push(format!("content cannot be read back: {e}")),
        Ok(_) if got != CONTENT => problems.push("content read back differs".to_string()),
        Ok(_) => {}
    }
    if problems.is_empty() {
        Some(Ok(()))
    } else {
        Some(Err(format!("fault at call {k} of end_extra_data (large_file={large}, {method:?}): {}", problems.join("; "))))
    }
}

#[test]
fn repeated_end_extra_data_after_a_transient_fault() {
    let mut bad = Vec::new();
    for large in [false, true] {
        for method in [CompressionMethod::Stored, CompressionMethod::Deflated] {
            for k in 0.. {
                match extra_data_run(k, large, method) {
                    None => break,
                    Some(Ok(())) => {}
                    Some(Err(msg)) => bad.push(msg),
                }
            }
        }
    }
    assert!(
        bad.is_empty(),
        "C17: extra data accepted with Ok must be stored verbatim in the local header and the \
         content must round-trip (or the repeated call must fail); instead:\n{}",
        bad.join("\n")
    );
}

/// The documented recipe for aligning by hand: pad record, then
/// `end_local_start_central_extra_data`, which returns the final (aligned) data start.
#[test]
fn repeated_alignment_by_hand_after_a_transient_fault() {
    const ALIGN: u64 = 64;
    let mut bad = Vec::new();
    for k in 0.. {
        let calls = Rc::new(Cell::new(0));
        let fail_at = Rc::new(Cell::new(usize::MAX));
        let sink = Flaky {
            inner: Cursor::new(Vec::new()),
            calls: calls.clone(),
            fail_at: fail_at.clone(),
        };
        let mut w = ZipWriter::new(sink);
        let o = FileOptions::default().compression_method(CompressionMethod::Stored);
        let preliminary = w.start_file_with_extra_data("aligned", o).unwrap();
        let pad = (ALIGN - (preliminary + 4) % ALIGN) % ALIGN;
        w.write_all(&[0xad, 0xde]).unwrap();
        w.write_all(&(pad as u16).to_le_bytes()).unwrap();
        w.write_all(&vec![0; pad as usize]).unwrap();

        fail_at.set(calls.get() + k);
        if w.end_local_start_central_extra_data().is_ok() {
            fail_at.set(usize::MAX);
            break;
        }
        let reported = match w.end_local_start_central_extra_data() {
            Ok(data_start) => data_start,
            Err(_) => continue,
        };
        w.end_extra_data().unwrap();
        w.write_all(CONTENT).unwrap();
        let bytes = w.finish().unwrap().inner.into_inner();

        let mut a = ZipArchive::new(Cursor::new(bytes.clone())).unwrap();
        let mut f = a.by_name("aligned").unwrap();
        let found = f.data_start();
        let mut got = Vec::new();
        let read = f.read_to_end(&mut got);
        if reported % ALIGN != 0 || found % ALIGN != 0 || found != reported {
            bad.push(format!(
                "fault at call {k}: reported data start {reported}, the reader finds {found} (alignment {ALIGN})"
            ));
        } else if read.is_err() || got != CONTENT {
            bad.push(format!("fault at call {k}: content does not round-trip ({read:?})"));
        } else if &bytes[found as usize..found as usize + CONTENT.len()] != CONTENT {
            bad.push(format!("fault at call {k}: the content is not at offset {found}"));
        }
    }
    assert!(
        bad.is_empty(),
        "C17: an entry whose alignment request ended with Ok must have its data at the reported \
         multiple of the alignment, in the bytes and for the reader; instead:\n{}",
        bad.join("\n")
    );
}
