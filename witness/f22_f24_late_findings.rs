//! F22 (C11), F23 (C12), F24 (C14): three defects repaired after F21 was recorded.
//! Each test passes on the repaired tree and fails on the commit in front of its `fix:` commit.
use std::io::{self, Cursor, Read, Seek, SeekFrom, Write};
use zip::write::FileOptions;
use zip::{CompressionMethod, ZipArchive, ZipWriter};

fn le16(v: u16) -> [u8; 2] {
    v.to_le_bytes()
}
fn le32(v: u32) -> [u8; 4] {
    v.to_le_bytes()
}
fn crc32(data: &[u8]) -> u32 {
    let mut c = 0xFFFF_FFFFu32;
    for &x in data {
        c ^= x as u32;
        for _ in 0..8 {
            c = if c & 1 != 0 { 0xEDB8_8320 ^ (c >> 1) } else { c >> 1 };
        }
    }
    !c
}
fn lfh(name: &[u8], data: &[u8]) -> Vec<u8> {
    let mut v = Vec::new();
    v.extend_from_slice(&le32(0x0403_4b50));
    v.extend_from_slice(&le16(20));
    v.extend_from_slice(&le16(0));
    v.extend_from_slice(&le16(0));
    v.extend_from_slice(&le16(0));
    v.extend_from_slice(&le16(0x21));
    v.extend_from_slice(&le32(crc32(data)));
    v.extend_from_slice(&le32(data.len() as u32));
    v.extend_from_slice(&le32(data.len() as u32));
    v.extend_from_slice(&le16(name.len() as u16));
    v.extend_from_slice(&le16(0));
    v.extend_from_slice(name);
    v.extend_from_slice(data);
    v
}
fn cdh(name: &[u8], data: &[u8], offset: u32, comment: &[u8]) -> Vec<u8> {
    let mut v = Vec::new();
    v.extend_from_slice(&le32(0x0201_4b50));
    v.extend_from_slice(&le16(0x031e));
    v.extend_from_slice(&le16(20));
    v.extend_from_slice(&le16(0));
    v.extend_from_slice(&le16(0));
    v.extend_from_slice(&le16(0));
    v.extend_from_slice(&le16(0x21));
    v.extend_from_slice(&le32(crc32(data)));
    v.extend_from_slice(&le32(data.len() as u32));
    v.extend_from_slice(&le32(data.len() as u32));
    v.extend_from_slice(&le16(name.len() as u16));
    v.extend_from_slice(&le16(0));
    v.extend_from_slice(&le16(comment.len() as u16));
    v.extend_from_slice(&le16(0));
    v.extend_from_slice(&le16(0));
    v.extend_from_slice(&le32(0o100644 << 16));
    v.extend_from_slice(&le32(offset));
    v.extend_from_slice(name);
    v.extend_from_slice(comment);
    v
}

/// One file, two directories. The ZIP64 end record (which the crate gives precedence, as APPNOTE
/// says) lists the entry "zip64.txt"; the classic end record on its own lists "classic.txt": the
/// ZIP64 end record and its locator sit in the entry comment of that directory's only record, so
/// the classic directory ends at the classic end record, as the classic reading expects.
fn two_faced_archive() -> Vec<u8> {
    let mut b = Vec::new();
    let h_classic = b.len();
    b.extend_from_slice(&lfh(b"classic.txt", b"from the classic directory"));
    let h_zip64 = b.len();
    b.extend_from_slice(&lfh(b"zip64.txt", b"from the ZIP64 directory"));
    let d_zip64 = b.len();
    let cd_b = cdh(b"zip64.txt", b"from the ZIP64 directory", h_zip64 as u32, b"");
    b.extend_from_slice(&cd_b);
    let d_classic = b.len();
    let z64 = d_classic + 46 + b"classic.txt".len();
    let mut tail = Vec::new();
    tail.extend_from_slice(&le32(0x0606_4b50));
    tail.extend_from_slice(&44u64.to_le_bytes());
    tail.extend_from_slice(&le16(45));
    tail.extend_from_slice(&le16(45));
    tail.extend_from_slice(&le32(0));
    tail.extend_from_slice(&le32(0));
    tail.extend_from_slice(&1u64.to_le_bytes());
    tail.extend_from_slice(&1u64.to_le_bytes());
    tail.extend_from_slice(&(cd_b.len() as u64).to_le_bytes());
    tail.extend_from_slice(&(d_zip64 as u64).to_le_bytes());
    tail.extend_from_slice(&le32(0x0706_4b50));
    tail.extend_from_slice(&le32(0));
    tail.extend_from_slice(&(z64 as u64).to_le_bytes());
    tail.extend_from_slice(&le32(1));
    assert_eq!(tail.len(), 76);
    let cd_a = cdh(b"classic.txt", b"from the classic directory", h_classic as u32, &tail);
    b.extend_from_slice(&cd_a);
    b.extend_from_slice(&le32(0x0605_4b50));
    b.extend_from_slice(&le16(0));
    b.extend_from_slice(&le16(0));
    b.extend_from_slice(&le16(1));
    b.extend_from_slice(&le16(1));
    b.extend_from_slice(&le32(cd_a.len() as u32));
    b.extend_from_slice(&le32(d_classic as u32));
    b.extend_from_slice(&le16(0));
    b
}

struct SeekFault<R> {
    r: R,
    calls: usize,
    fail: usize,
}
impl<R: Read> Read for SeekFault<R> {
    fn read(&mut self, b: &mut [u8]) -> io::Result<usize> {
        self.calls += 1;
        if self.calls == self.fail {
            return Err(io::Error::new(io::ErrorKind::Other, "injected device fault"));
        }
        self.r.read(b)
    }
}
impl<R: Seek> Seek for SeekFault<R> {
    fn seek(&mut self, p: SeekFrom) -> io::Result<u64> {
        self.calls += 1;
        if self.calls == self.fail {
            return Err(io::Error::new(io::ErrorKind::Other, "injected device fault"));
        }
        self.r.seek(p)
    }
}

// F22 (C11): one hard I/O error at any call index must give an error or the failure-free listing.
// The seek in front of the ZIP64 locator probe was tolerated: with it failing, the archive opened
// successfully as a classic one - a success carrying a different entry.
#[test]
fn f22_fault_at_every_call_of_open_gives_error_or_the_same_listing() {
    let bytes = two_faced_archive();
    let clean = {
        let mut a = ZipArchive::new(Cursor::new(bytes.clone())).expect("opens");
        let names: Vec<String> = (0..a.len()).map(|i| a.by_index(i).unwrap().name().to_owned()).collect();
        names
    };
    assert_eq!(clean, vec!["zip64.txt".to_string()], "the ZIP64 directory takes precedence");
    let total = {
        let mut p = SeekFault { r: Cursor::new(bytes.clone()), calls: 0, fail: 0 };
        let _ = ZipArchive::new(&mut p).unwrap();
        p.calls
    };
    for k in 1..=total {
        let r = SeekFault { r: Cursor::new(bytes.clone()), calls: 0, fail: k };
        match ZipArchive::new(r) {
            Err(_) => {}
            Ok(mut a) => {
                let names: Vec<String> = (0..a.len()).map(|i| a.by_index(i).unwrap().name().to_owned()).collect();
                assert_eq!(names, clean, "I/O call #{k} failed, every call reported success, the listing differs");
            }
        }
    }
}

// F23 (C12): a level outside the range of a compressing method is an error, never a panic.
// Level 0 was inside the documented Bzip2 range, and the encoder panicked on it (libbz2 has no level 0).
#[test]
fn f23_bzip2_level_0_is_an_error_or_works_but_never_panics() {
    let mut w = ZipWriter::new(Cursor::new(Vec::new()));
    let o = FileOptions::default().compression_method(CompressionMethod::Bzip2).compression_level(Some(0));
    let started = w.start_file("a", o).is_ok() && w.write_all(b"some content some content").is_ok();
    let plain = FileOptions::default().compression_method(CompressionMethod::Stored);
    if !started {
        // refused: the writer may be poisoned (then finish is an error) or usable; either way no panic
        let _ = w.start_file("b", plain);
    }
    match w.finish() {
        Err(_) => std::mem::forget(w),
        Ok(c) => {
            let mut a = ZipArchive::new(Cursor::new(c.into_inner())).expect("readable");
            if started {
                let mut s = String::new();
                a.by_name("a").unwrap().read_to_string(&mut s).unwrap();
                assert_eq!(s, "some content some content");
            }
        }
    }
}

fn deflated_archive(content: &[u8]) -> Vec<u8> {
    let mut w = ZipWriter::new(Cursor::new(Vec::new()));
    w.start_file("a", FileOptions::default().compression_method(CompressionMethod::Deflated)).unwrap();
    w.write_all(content).unwrap();
    w.finish().unwrap().into_inner()
}
fn check_copy(out: Vec<u8>, src_raw: &[u8], content: &[u8]) {
    let mut a = ZipArchive::new(Cursor::new(out)).expect("copy is readable");
    {
        let mut raw = Vec::new();
        a.by_index_raw(0).unwrap().read_to_end(&mut raw).unwrap();
        assert_eq!(raw, src_raw, "compressed bytes of the copy are the source's");
    }
    let mut got = Vec::new();
    a.by_index(0).unwrap().read_to_end(&mut got).expect("copy decodes");
    assert_eq!(got, content, "copy decodes to the source's content");
}

// F24 (C14): a raw copy that reports success holds the source's compressed bytes.
// (a) an entry obtained from the streaming reader already has its decoder installed: the "raw"
//     reader was that decoder, so the copy held the *decompressed* bytes under the source's
//     method, sizes and CRC;
// (b) the same for a by_index handle that had been read from before it was copied.
#[test]
fn f24_raw_copy_of_a_streamed_or_partly_read_entry() {
    let content: Vec<u8> = (0..4000u32).map(|i| b"abcdefgh"[(i % 8) as usize]).collect();
    let src = deflated_archive(&content);
    let src_raw = {
        let mut a = ZipArchive::new(Cursor::new(src.clone())).unwrap();
        let mut raw = Vec::new();
        a.by_index_raw(0).unwrap().read_to_end(&mut raw).unwrap();
        raw
    };
    // (a) streamed entry
    {
        let mut cur = Cursor::new(src.clone());
        let f = zip::read::read_zipfile_from_stream(&mut cur).unwrap().unwrap();
        let mut w = ZipWriter::new(Cursor::new(Vec::new()));
        match w.raw_copy_file(f) {
            Err(_) => {}
            Ok(()) => check_copy(w.finish().unwrap().into_inner(), &src_raw, &content),
        }
    }
    // (b) partly read handle
    {
        let mut a = ZipArchive::new(Cursor::new(src.clone())).unwrap();
        let mut f = a.by_index(0).unwrap();
        let mut b = [0u8; 10];
        f.read_exact(&mut b).unwrap();
        let mut w = ZipWriter::new(Cursor::new(Vec::new()));
        match w.raw_copy_file(f) {
            Err(_) => {
                // a refusal leaves nothing behind
                let out = w.finish().unwrap().into_inner();
                assert_eq!(ZipArchive::new(Cursor::new(out)).unwrap().len(), 0, "a refused copy leaves no entry");
            }
            Ok(()) => check_copy(w.finish().unwrap().into_inner(), &src_raw, &content),
        }
    }
}
