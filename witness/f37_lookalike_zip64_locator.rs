// C03 / F3: an archive WITHOUT ZIP64 records is refused when the 20 bytes in front of its
// end-of-central-directory record - the tail of the last central header (its comment, extra data
// or name), or the tail of the prepended data in front of an empty archive - begin with the four
// bytes "PK\x06\x07": they are taken for a ZIP64 locator and the archive is then required to
// contain a ZIP64 end record.
use std::io::{Cursor, Read};
use zip::ZipArchive;

fn crc32(data: &[u8]) -> u32 {
    let mut crc = 0xFFFF_FFFFu32;
    for &b in data {
        crc ^= b as u32;
        for _ in 0..8 {
            crc = if crc & 1 != 0 { (crc >> 1) ^ 0xEDB8_8320 } else { crc >> 1 };
        }
    }
    !crc
}

fn le16(v: &mut Vec<u8>, x: u16) {
    v.extend_from_slice(&x.to_le_bytes());
}
fn le32(v: &mut Vec<u8>, x: u32) {
    v.extend_from_slice(&x.to_le_bytes());
}


struct Entry<'a> {
    name: &'a str,
    data: &'a [u8],
    extra: &'a [u8],   // central extra data
    comment: &'a [u8], // entry comment
}

/// A plain well-formed archive (no ZIP64 records) of stored entries.
fn archive(entries: &[Entry]) -> Vec<u8> {
    let mut out = Vec::new();
    let mut offsets = Vec::new();
    for e in entries {
        offsets.push(out.len() as u32);
        le32(&mut out, 0x04034b50);
        le16(&mut out, 20);
        le16(&mut out, 0);
        le16(&mut out, 0); // stored
        le16(&mut out, 0x54CF);
        le16(&mut out, 0x4D71);
        le32(&mut out, crc32(e.data));
        le32(&mut out, e.data.len() as u32);
        le32(&mut out, e.data.len() as u32);
        le16(&mut out, e.name.len() as u16);
        le16(&mut out, 0);
        out.extend_from_slice(e.name.as_bytes());
        out.extend_from_slice(e.data);
    }
    let cd_start = out.len() as u32;
    for (i, e) in entries.iter().enumerate() {
        le32(&mut out, 0x02014b50);
        le16(&mut out, 0x0314);
        le16(&mut out, 20);
        le16(&mut out, 0);
        le16(&mut out, 0);
        le16(&mut out, 0x54CF);
        le16(&mut out, 0x4D71);
        le32(&mut out, crc32(e.data));
        le32(&mut out, e.data.len() as u32);
        le32(&mut out, e.data.len() as u32);
        le16(&mut out, e.name.len() as u16);
        le16(&mut out, e.extra.len() as u16);
        le16(&mut out, e.comment.len() as u16);
        le16(&mut out, 0);
        le16(&mut out, 0);
        le32(&mut out, 0o100644 << 16);
        le32(&mut out, offsets[i]);
        out.extend_from_slice(e.name.as_bytes());
        out.extend_from_slice(e.extra);
        out.extend_from_slice(e.comment);
    }
    let cd_size = out.len() as u32 - cd_start;
    le32(&mut out, 0x06054b50);
    le16(&mut out, 0);
    le16(&mut out, 0);
    le16(&mut out, entries.len() as u16);
    le16(&mut out, entries.len() as u16);
    le32(&mut out, cd_size);
    le32(&mut out, cd_start);
    le16(&mut out, 0);
    out
}

fn expect_faithful(bytes: Vec<u8>, prepended: u64, entries: &[Entry], what: &str) {
    let mut archive = match ZipArchive::new(Cursor::new(bytes)) {
        Ok(a) => a,
        Err(e) => panic!(
            "{}: the property expects the well-formed archive (no ZIP64 records, every value held \
             by the classic end record) to be opened, but ZipArchive::new failed with {:?}",
            what, e
        ),
    };
    assert_eq!(archive.len(), entries.len(), "{}: number of entries", what);
    assert_eq!(archive.offset(), prepended, "{}: offset() is the length of the prepended data", what);
    for (i, e) in entries.iter().enumerate() {
        let mut f = archive.by_index(i).expect("entry can be opened");
        assert_eq!(f.name(), e.name, "{}: name of entry {}", what, i);
        assert_eq!(f.extra_data(), e.extra, "{}: extra data of entry {}", what, i);
        assert_eq!(f.name_raw(), e.name.as_bytes(), "{}: raw name of entry {}", what, i);
        let mut v = Vec::new();
        f.read_to_end(&mut v).expect("entry can be read");
        assert_eq!(&v[..], e.data, "{}: content of entry {}", what, i);
    }
}

/// The comment of the last entry ends in 20 bytes that begin with "PK\x06\x07".
#[test]
fn last_entry_comment_ending_like_a_locator() {
    // (Precondition: the same archive with an innocent comment of the same length is read.)
    let innocent = b"about the locator: PK..and sixteen more";
    let entries = [
        Entry { name: "a.txt", data: b"hello world", extra: b"", comment: b"" },
        Entry { name: "b.txt", data: b"second", extra: b"", comment: innocent },
    ];
    expect_faithful(archive(&entries), 0, &entries, "precondition");

    let comment = b"about the locator: PK\x06\x07and sixteen more";
    assert_eq!(&comment[comment.len() - 20..comment.len() - 16], b"PK\x06\x07");
    let entries = [
        Entry { name: "a.txt", data: b"hello world", extra: b"", comment: b"" },
        Entry { name: "b.txt", data: b"second", extra: b"", comment },
    ];
    expect_faithful(archive(&entries), 0, &entries, "entry comment ending like a locator");
}

/// The same with the extra data of the last entry: an unknown record with 20 bytes of payload.
#[test]
fn last_entry_extra_data_ending_like_a_locator() {
    let mut extra = vec![0xFE, 0xCA, 20, 0];
    extra.extend_from_slice(b"PK\x06\x07");
    extra.extend_from_slice(&[0u8; 16]);
    let entries = [
        Entry { name: "a.txt", data: b"hello world", extra: b"", comment: b"" },
        Entry { name: "b.txt", data: b"second", extra: &extra, comment: b"" },
    ];
    expect_faithful(archive(&entries), 0, &entries, "extra data ending like a locator");
}

/// Arbitrary data prepended to an (empty) archive: the data ends in such 20 bytes.
#[test]
fn prepended_data_ending_like_a_locator() {
    let mut bytes = vec![0x5Au8; 180];
    bytes.extend_from_slice(b"PK\x06\x07");
    bytes.extend_from_slice(&[0u8; 16]);
    bytes.extend_from_slice(&archive(&[]));
    expect_faithful(bytes, 200, &[], "prepended data ending like a locator");
}
