//! C05 finding 1: opening a 98-byte ZIP64 archive for append yields a writer positioned far past
//! the end of the input; the implicit `finalize` in `Drop` (or an explicit `finish`) then
//! allocates/zero-fills up to the lying offset: memory exhaustion, `capacity overflow` panic or
//! process abort ("memory allocation of 9223372036854775556 bytes failed").
//!
//! Integration test, public API + std only. Fails on the unchanged crate; passes once
//! `new_append` (or `get_directory_counts`) rejects a central directory that starts behind the
//! end-of-central-directory records.

use std::io::Cursor;
use std::process::Command;

fn le16(v: &mut Vec<u8>, x: u16) {
    v.extend_from_slice(&x.to_le_bytes());
}
fn le32(v: &mut Vec<u8>, x: u32) {
    v.extend_from_slice(&x.to_le_bytes());
}
fn le64(v: &mut Vec<u8>, x: u64) {
    v.extend_from_slice(&x.to_le_bytes());
}

/// ZIP64 end record + locator + classic end record, no entries; every field is internally
/// valid except that the (empty) central directory is said to start at `cd_offset`.
fn empty_zip64(cd_offset: u64) -> Vec<u8> {
    let mut v = Vec::new();
    le32(&mut v, 0x06064b50); // zip64 end of central directory record, at offset 0
    le64(&mut v, 44); // size of the remaining record
    le16(&mut v, 45); // version made by
    le16(&mut v, 45); // version needed
    le32(&mut v, 0); // this disk
    le32(&mut v, 0); // disk with the central directory
    le64(&mut v, 0); // entries on this disk
    le64(&mut v, 0); // entries in total
    le64(&mut v, 0); // central directory size
    le64(&mut v, cd_offset); // central directory offset  <-- the lie
    le32(&mut v, 0x07064b50); // zip64 locator
    le32(&mut v, 0); // disk with the zip64 end record
    le64(&mut v, 0); // offset of the zip64 end record
    le32(&mut v, 1); // number of disks
    le32(&mut v, 0x06054b50); // classic end record
    le16(&mut v, 0);
    le16(&mut v, 0);
    le16(&mut v, 0);
    le16(&mut v, 0);
    le32(&mut v, 0);
    le32(&mut v, 0xFFFF_FFFF);
    le16(&mut v, 0);
    assert_eq!(v.len(), 98);
    v
}

/// In-process variant with a "small" lie (256 MiB) so that the allocation succeeds and the
/// blow-up can be observed as a value instead of killing the test process.
#[test]
fn append_open_of_98_bytes_must_not_grow_the_archive_to_256_mib() {
    let input = empty_zip64(1 << 28);
    match zip::ZipWriter::new_append(Cursor::new(input.clone())) {
        Err(_) => {} // rejecting the archive is the expected, fixed behaviour
        Ok(mut w) => {
            // `finish` is what `Drop` would run implicitly
            match w.finish() {
                Err(_) => {}
                Ok(c) => {
                    let out = c.into_inner();
                    assert!(
                        out.len() < input.len() + 65_536 + 200,
                        "appending nothing to a {}-byte archive produced {} bytes (zero-filled up to the lying central directory offset)",
                        input.len(),
                        out.len()
                    );
                }
            }
        }
    }
}

fn child(cd_offset: u64) {
    let input = empty_zip64(cd_offset);
    // open for append and let the value go out of scope, nothing else
    let r = zip::ZipWriter::new_append(Cursor::new(input));
    drop(r);
}

fn run_child(test_name: &str) -> std::process::Output {
    Command::new(std::env::current_exe().unwrap())
        .args(["--exact", test_name, "--nocapture", "--test-threads=1"])
        .env("C05_F1_CHILD", "1")
        .env("RUST_BACKTRACE", "0")
        .output()
        .unwrap()
}

/// Offset just below 2^63: `Vec::reserve` asks the allocator for ~2^63 bytes -> abort (SIGABRT).
#[test]
fn append_open_and_drop_must_not_abort() {
    if std::env::var_os("C05_F1_CHILD").is_some() {
        child(0x7FFF_FFFF_FFFF_FF00);
        return;
    }
    let out = run_child("append_open_and_drop_must_not_abort");
    assert!(
        out.status.success(),
        "child that only did `drop(ZipWriter::new_append(Cursor::new(<98 bytes>)))` died: {:?}\nstderr: {}",
        out.status,
        String::from_utf8_lossy(&out.stderr)
    );
}

/// Offset above 2^63: `Vec::reserve` panics with "capacity overflow" inside `Drop`.
#[test]
fn append_open_and_drop_must_not_panic() {
    if std::env::var_os("C05_F1_CHILD").is_some() {
        child(0xFFFF_FFFF_FFFF_FF00);
        return;
    }
    let out = run_child("append_open_and_drop_must_not_panic");
    assert!(
        out.status.success(),
        "child that only did `drop(ZipWriter::new_append(Cursor::new(<98 bytes>)))` failed: {:?}\nstderr: {}",
        out.status,
        String::from_utf8_lossy(&out.stderr)
    );
}
