//! C02 finding 4: `raw_copy_file` of an encrypted entry (ZipCrypto written by this crate, or a
//! WinZip-AES entry) copies the ciphertext but drops the "encrypted" flag (and, for AES, method 99 and
//! its 0x9901 record). The result is reported as success, yet the copied entry claims to be plain
//! stored/deflated data whose sizes and CRC do not match the bytes that follow the header.
use std::io::{Cursor, Write};
use zip::unstable::write::FileOptionsExt;
use zip::write::FileOptions;
use zip::{CompressionMethod, ZipArchive, ZipWriter};

// ---- independent mini-verifier (APPNOTE layout; shares no code with the crate) ----
fn u16le(b: &[u8], o: usize) -> usize {
    b[o] as usize | (b[o + 1] as usize) << 8
}
fn u32le(b: &[u8], o: usize) -> usize {
    u16le(b, o) | u16le(b, o + 2) << 16
}
fn crc32(data: &[u8]) -> u32 {
    let mut c = 0xFFFF_FFFFu32;
    for &x in data {
        c ^= x as u32;
        for _ in 0..8 {
            c = if c & 1 != 0 { 0xEDB8_8320 ^ (c >> 1) } else { c >> 1 };
        }
    }
    !c
}
/// Checks the structure of a (non-ZIP64) archive; returns the entry names on success.
fn verify(b: &[u8]) -> Result<Vec<Vec<u8>>, String> {
    let n = b.len();
    if n < 22 {
        return Err("shorter than an end-of-central-directory record".into());
    }
    // the end record is the last thing in the file: signature at p, p + 22 + comment length == EOF
    let eocd = (0..=n - 22)
        .rev()
        .find(|&p| u32le(b, p) == 0x0605_4b50 && p + 22 + u16le(b, p + 20) == n)
        .ok_or("no end-of-central-directory record that ends exactly at end of file")?;
    let count = u16le(b, eocd + 10);
    let cd_size = u32le(b, eocd + 12);
    let cd_off = u32le(b, eocd + 16);
    if cd_off + cd_size != eocd {
        return Err(format!("central directory [{cd_off}, +{cd_size}) does not end at the end record ({eocd})"));
    }
    let mut names = Vec::new();
    let mut spans = Vec::new();
    let mut p = cd_off;
    while p < eocd {
        if p + 46 > eocd || u32le(b, p) != 0x0201_4b50 {
            return Err(format!("bad central header signature at {p}"));
        }
        let (flags, method, crc) = (u16le(b, p + 8), u16le(b, p + 10), u32le(b, p + 16) as u32);
        let (csize, usize_) = (u32le(b, p + 20), u32le(b, p + 24));
        let (nl, el, cl) = (u16le(b, p + 28), u16le(b, p + 30), u16le(b, p + 32));
        let h = u32le(b, p + 42);
        let name = b[p + 46..p + 46 + nl].to_vec();
        let who = String::from_utf8_lossy(&name).into_owned();
        if h + 30 > cd_off || u32le(b, h) != 0x0403_4b50 {
            return Err(format!("{who}: no local header at recorded offset {h}"));
        }
        let (lflags, lmethod) = (u16le(b, h + 6), u16le(b, h + 8));
        let (lnl, lel) = (u16le(b, h + 26), u16le(b, h + 28));
        if h + 30 + lnl + lel > cd_off {
            return Err(format!("{who}: local header runs into the central directory"));
        }
        if b[h + 30..h + 30 + lnl] != name[..] {
            return Err(format!("{who}: local name {:?} differs from central name", String::from_utf8_lossy(&b[h + 30..h + 30 + lnl])));
        }
        if lflags != flags {
            return Err(format!("{who}: local flags {lflags:#06x} != central flags {flags:#06x}"));
        }
        if lmethod != method {
            return Err(format!("{who}: local method {lmethod} != central method {method}"));
        }
        // local extra field must be a well-formed sequence of (id, size, data) records
        let (mut q, xe) = (h + 30 + lnl, h + 30 + lnl + lel);
        while q < xe {
            if q + 4 > xe || q + 4 + u16le(b, q + 2) > xe {
                return Err(format!("{who}: malformed local extra field"));
            }
            q += 4 + u16le(b, q + 2);
        }
        if flags & 8 == 0 && lflags & 8 == 0 {
            // (a large_file entry keeps 0xFFFFFFFF here and the sizes in its ZIP64 record)
            let zip64 = u32le(b, h + 18) == 0xFFFF_FFFF && lel >= 20 && u16le(b, h + 30 + lnl) == 1;
            let (lc, lu) = if zip64 {
                (u32le(b, h + 30 + lnl + 12), u32le(b, h + 30 + lnl + 4))
            } else {
                (u32le(b, h + 18), u32le(b, h + 22))
            };
            if u32le(b, h + 14) as u32 != crc || lc != csize || lu != usize_ {
                return Err(format!("{who}: local crc/sizes ({:#x},{lc},{lu}) != central ({crc:#x},{csize},{usize_})", u32le(b, h + 14)));
            }
        }
        let data = h + 30 + lnl + lel;
        if data + csize > cd_off {
            return Err(format!("{who}: data [{data}, +{csize}) runs into the central directory at {cd_off}"));
        }
        if method == 0 && flags & 1 == 0 {
            if csize != usize_ {
                return Err(format!("{who}: stored entry with compressed size {csize} != uncompressed size {usize_}"));
            }
            if crc32(&b[data..data + csize]) != crc {
                return Err(format!("{who}: CRC-32 of the stored data does not match the recorded one"));
            }
        }
        spans.push((h, data + csize));
        names.push(name);
        p += 46 + nl + el + cl;
    }
    if names.len() != count {
        return Err(format!("directory holds {} records, end record says {count}", names.len()));
    }
    spans.sort();
    for w in spans.windows(2) {
        if w[1].0 < w[0].1 {
            return Err(format!("entry at {} overlaps the previous one ending at {}", w[1].0, w[0].1));
        }
    }
    Ok(names)
}

#[test]
fn raw_copy_of_zipcrypto_entry_keeps_it_consistent() {
    let plain = b"attack at dawn, attack at dawn";
    let mut w = ZipWriter::new(Cursor::new(Vec::new()));
    let o = FileOptions::default().compression_method(CompressionMethod::Stored).with_deprecated_encryption(b"password");
    w.start_file("secret.txt", o).unwrap();
    w.write_all(plain).unwrap();
    let source = w.finish().unwrap().into_inner();
    // the source is fine: flag bit 0 set, compressed size = 12-byte encryption header + data
    verify(&source).unwrap();
    assert_eq!(u16le(&source, 6) & 1, 1);

    let mut src = ZipArchive::new(Cursor::new(source.clone())).unwrap();
    let mut w = ZipWriter::new(Cursor::new(Vec::new()));
    if w.raw_copy_file(src.by_index_raw(0).unwrap()).is_err() { return; } // a refusal is a correct outcome
    let copy = w.finish().unwrap().into_inner();

    // Either the copy is still marked encrypted (flag bit 0 in both headers, ciphertext untouched) ...
    let flags = u16le(&copy, 6);
    if flags & 1 == 1 {
        assert_eq!(verify(&copy).unwrap(), vec![b"secret.txt".to_vec()]);
        let data = 30 + u16le(&copy, 26) + u16le(&copy, 28);
        assert_eq!(&copy[data..data + 12 + plain.len()], &source[data..data + 12 + plain.len()]);
    } else {
        // ... or it claims to be an unencrypted stored entry, and then its sizes and CRC must describe its bytes.
        verify(&copy).expect("raw copy of an encrypted entry");
    }
}

/// Same source, but opened with the password: the ZipCrypto reader has already consumed the 12-byte
/// encryption header when `raw_copy_file` takes the raw reader, so 12 bytes fewer than the recorded
/// compressed size are copied.
#[test]
fn raw_copy_of_decrypted_handle_keeps_it_consistent() {
    let plain = b"attack at dawn, attack at dawn";
    let mut w = ZipWriter::new(Cursor::new(Vec::new()));
    let o = FileOptions::default().compression_method(CompressionMethod::Stored).with_deprecated_encryption(b"password");
    w.start_file("secret.txt", o).unwrap();
    w.write_all(plain).unwrap();
    let source = w.finish().unwrap().into_inner();
    let mut src = ZipArchive::new(Cursor::new(source)).unwrap();
    let mut w = ZipWriter::new(Cursor::new(Vec::new()));
    let file = src.by_index_decrypt(0, b"password").unwrap().unwrap();
    match w.raw_copy_file(file) {
        Err(_) => {} // refusing is fine
        Ok(()) => {
            let copy = w.finish().unwrap().into_inner();
            verify(&copy).expect("raw copy through a decrypting handle");
        }
    }
}
