// C03 / F1: a ZIP64 archive with data prepended to it is misread when the bytes in front of the
// real ZIP64 end-of-central-directory record (prepended data, contents of a stored entry) happen
// to contain the four signature bytes "PK\x06\x06".
use std::io::{Cursor, Read};
use zip::ZipArchive;

fn crc32(data: &[u8]) -> u32 {
    let mut crc = 0xFFFF_FFFFu32;
    for &b in data {
        crc ^= b as u32;
        for _ in 0..8 {
            crc = if crc & 1 != 0 { (crc >> 1) ^ 0xEDB8_8320 } else { crc >> 1 };
        }
    }
    !crc
}

fn le16(v: &mut Vec<u8>, x: u16) {
    v.extend_from_slice(&x.to_le_bytes());
}
fn le32(v: &mut Vec<u8>, x: u32) {
    v.extend_from_slice(&x.to_le_bytes());
}
fn le64(v: &mut Vec<u8>, x: u64) {
    v.extend_from_slice(&x.to_le_bytes());
}

/// A plain well-formed archive of stored entries that ends in a ZIP64 end record, a ZIP64 locator
/// and a classic end record whose fields are all-ones (the layout of APPNOTE 4.3.6, as written by
/// any producer that emits ZIP64 records). All offsets are relative to the start of the archive.
fn zip64_archive(entries: &[(&str, &[u8])]) -> Vec<u8> {
    let mut out = Vec::new();
    let mut offsets = Vec::new();
    for (name, data) in entries {
        offsets.push(out.len() as u32);
        le32(&mut out, 0x04034b50);
        le16(&mut out, 45);
        le16(&mut out, 0);
        le16(&mut out, 0); // stored
        le16(&mut out, 0x54CF);
        le16(&mut out, 0x4D71);
        le32(&mut out, crc32(data));
        le32(&mut out, data.len() as u32);
        le32(&mut out, data.len() as u32);
        le16(&mut out, name.len() as u16);
        le16(&mut out, 0);
        out.extend_from_slice(name.as_bytes());
        out.extend_from_slice(data);
    }
    let cd_start = out.len() as u64;
    for (i, (name, data)) in entries.iter().enumerate() {
        le32(&mut out, 0x02014b50);
        le16(&mut out, 0x032D);
        le16(&mut out, 45);
        le16(&mut out, 0);
        le16(&mut out, 0);
        le16(&mut out, 0x54CF);
        le16(&mut out, 0x4D71);
        le32(&mut out, crc32(data));
        le32(&mut out, data.len() as u32);
        le32(&mut out, data.len() as u32);
        le16(&mut out, name.len() as u16);
        le16(&mut out, 0);
        le16(&mut out, 0);
        le16(&mut out, 0);
        le16(&mut out, 0);
        le32(&mut out, 0o100644 << 16);
        le32(&mut out, offsets[i]);
        out.extend_from_slice(name.as_bytes());
    }
    let cd_size = out.len() as u64 - cd_start;
    let n = entries.len() as u64;
    let z64_pos = out.len() as u64;
    le32(&mut out, 0x06064b50);
    le64(&mut out, 44);
    le16(&mut out, 45);
    le16(&mut out, 45);
    le32(&mut out, 0);
    le32(&mut out, 0);
    le64(&mut out, n);
    le64(&mut out, n);
    le64(&mut out, cd_size);
    le64(&mut out, cd_start);
    le32(&mut out, 0x07064b50);
    le32(&mut out, 0);
    le64(&mut out, z64_pos);
    le32(&mut out, 1);
    le32(&mut out, 0x06054b50);
    le16(&mut out, 0);
    le16(&mut out, 0);
    le16(&mut out, 0xFFFF);
    le16(&mut out, 0xFFFF);
    le32(&mut out, 0xFFFF_FFFF);
    le32(&mut out, 0xFFFF_FFFF);
    le16(&mut out, 0);
    out
}

fn expect_faithful(bytes: Vec<u8>, prepended: u64, entries: &[(&str, &[u8])], what: &str) {
    let mut archive = match ZipArchive::new(Cursor::new(bytes)) {
        Ok(a) => a,
        Err(e) => panic!(
            "{}: the property expects the archive to be opened (it is well-formed, with {} bytes \
             prepended), but ZipArchive::new failed with {:?}",
            what, prepended, e
        ),
    };
    assert_eq!(
        archive.len(),
        entries.len(),
        "{}: the property expects exactly the {} entries of the central directory, the reader \
         reports {} (offset() = {})",
        what,
        entries.len(),
        archive.len(),
        archive.offset()
    );
    assert_eq!(
        archive.offset(),
        prepended,
        "{}: the property expects offset() to report the length of the prepended data",
        what
    );
    for (i, (name, data)) in entries.iter().enumerate() {
        let mut f = archive.by_index(i).expect("entry can be opened");
        assert_eq!(f.name(), *name, "{}: name of entry {}", what, i);
        let mut v = Vec::new();
        f.read_to_end(&mut v).expect("entry can be read");
        assert_eq!(&v[..], *data, "{}: content of entry {}", what, i);
    }
}

/// The prepended data (think of a self-extractor stub) contains "PK\x06\x06" somewhere.
#[test]
fn zip64_prepended_data_containing_the_signature() {
    let entries: [(&str, &[u8]); 2] = [("a.txt", b"hello world"), ("b.txt", b"second")];
    // (Precondition: with an innocent stub of the same length the archive is read correctly.)
    let mut plain = vec![0x5Au8; 4096];
    plain.extend_from_slice(&zip64_archive(&entries));
    expect_faithful(plain, 4096, &entries, "precondition: plain stub");

    let mut stub = vec![0u8; 4096];
    stub[2000..2004].copy_from_slice(b"PK\x06\x06");
    let mut bytes = stub;
    bytes.extend_from_slice(&zip64_archive(&entries));
    expect_faithful(bytes, 4096, &entries, "stub containing PK\\x06\\x06");
}

/// No odd byte in the prepended data at all: the last entry is itself a (stored) ZIP64 archive,
/// so its ZIP64 end record lies between the position named by the locator and the real record.
#[test]
fn zip64_prepended_data_and_a_stored_zip64_archive_inside() {
    let inner_entries: [(&str, &[u8]); 1] = [("inner.txt", b"inner content")];
    let inner = zip64_archive(&inner_entries);
    let entries: [(&str, &[u8]); 2] = [("a.txt", b"hello world"), ("nested.zip", &inner)];
    let mut bytes = vec![0x5Au8; 300];
    bytes.extend_from_slice(&zip64_archive(&entries));
    expect_faithful(bytes, 300, &entries, "stored ZIP64 archive as last entry");
}
