//! C10 demo: an archive without entries (exactly what `ZipWriter::new(..).finish()` emits) is read
//! by the seekable reader as "zero entries", but the streaming reader reports it as invalid instead
//! of signalling the end of the entries.

use std::io::Cursor;
use zip::read::{read_zipfile_from_stream, ZipFile};
use zip::result::ZipResult;
use zip::unstable::stream::{ZipStreamFileMetadata, ZipStreamReader, ZipStreamVisitor};
use zip::{ZipArchive, ZipWriter};

fn empty_archive(comment: &str) -> Vec<u8> {
    let mut writer = ZipWriter::new(Cursor::new(Vec::new()));
    writer.set_comment(comment);
    writer.finish().unwrap().into_inner()
}

#[test]
fn stream_reader_signals_end_of_entries_on_archive_without_entries() {
    for comment in ["", "an archive comment"] {
        let bytes = empty_archive(comment);

        // the seekable reader: zero entries
        let archive = ZipArchive::new(Cursor::new(&bytes[..])).expect("seekable reader accepts it");
        assert_eq!(archive.len(), 0);

        // the streaming reader must yield the same (empty) sequence and then signal the end
        let mut stream = Cursor::new(&bytes[..]);
        let result = read_zipfile_from_stream(&mut stream);
        match result {
            Ok(None) => {}
            Ok(Some(file)) => panic!("expected end of entries, got an entry named {:?}", file.name()),
            Err(e) => panic!(
                "C10: the seekable reader lists 0 entries for the writer's empty archive, so the \
                 streaming reader must signal the end of entries (Ok(None)); it returned Err({e:?})"
            ),
        };
    }
}

#[derive(Default)]
struct Counter {
    files: usize,
    metadata: usize,
}
impl ZipStreamVisitor for Counter {
    fn visit_file(&mut self, _file: &mut ZipFile<'_>) -> ZipResult<()> {
        self.files += 1;
        Ok(())
    }
    fn visit_additional_metadata(&mut self, _metadata: &ZipStreamFileMetadata) -> ZipResult<()> {
        self.metadata += 1;
        Ok(())
    }
}

#[test]
fn visitor_accepts_archive_without_entries() {
    let bytes = empty_archive("");
    let mut counter = Counter::default();
    let result = ZipStreamReader::new(Cursor::new(&bytes[..])).visit(&mut counter);
    assert!(
        result.is_ok(),
        "C10: visiting the writer's empty archive must succeed with no file and no metadata \
         (the seekable reader lists 0 entries); it returned {result:?}"
    );
    assert_eq!((counter.files, counter.metadata), (0, 0));
}

#[test]
fn visitor_still_delivers_files_and_metadata_of_a_non_empty_archive() {
    use std::io::Write;
    let mut writer = ZipWriter::new(Cursor::new(Vec::new()));
    writer.start_file("a", Default::default()).unwrap();
    writer.write_all(b"a").unwrap();
    writer.start_file("b", Default::default()).unwrap();
    let bytes = writer.finish().unwrap().into_inner();
    let mut counter = Counter::default();
    ZipStreamReader::new(Cursor::new(&bytes[..])).visit(&mut counter).unwrap();
    assert_eq!((counter.files, counter.metadata), (2, 2));
}
