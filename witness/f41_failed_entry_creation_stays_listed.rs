// C12 / finding 1: an entry whose creation FAILS after its local header has been written
// (a raw copy that breaks off, a symlink whose target cannot be written, an aligned file whose
// padding cannot be placed) stays in the writer: finish() succeeds and the archive lists the
// entry - with data that is cut short - and the writer keeps accepting `write` calls for it.
//
// Property: "Whenever finish() then succeeds, the archive contains exactly the entries whose
// creation succeeded, ... each raw copy holding its source's content."

use std::cell::Cell;
use std::io::{self, Cursor, Read, Seek, SeekFrom, Write};
use std::rc::Rc;
use zip::write::FileOptions;
use zip::{CompressionMethod, ZipArchive, ZipWriter};

/// A source whose `read` fails once the shared budget of read calls is used up.
struct FailingSource {
    inner: Cursor<Vec<u8>>,
    reads_left: Rc<Cell<Option<usize>>>,
}
impl Read for FailingSource {
    fn read(&mut self, buf: &mut [u8]) -> io::Result<usize> {
        if let Some(n) = self.reads_left.get() {
            if n == 0 {
                return Err(io::Error::new(io::ErrorKind::Other, "source read error"));
            }
            self.reads_left.set(Some(n - 1));
        }
        self.inner.read(buf)
    }
}
impl Seek for FailingSource {
    fn seek(&mut self, pos: SeekFrom) -> io::Result<u64> {
        self.inner.seek(pos)
    }
}

/// Shared control of a sink: fails exactly one operation (write, flush or seek), the `k`-th one
/// counted from the moment it is armed.
#[derive(Default)]
struct Ctl {
    countdown: Cell<Option<usize>>,
    hit: Cell<bool>,
}
struct FaultySink {
    inner: Cursor<Vec<u8>>,
    ctl: Rc<Ctl>,
}
impl FaultySink {
    fn tick(&mut self) -> io::Result<()> {
        if let Some(n) = self.ctl.countdown.get() {
            if n == 0 {
                self.ctl.countdown.set(None);
                self.ctl.hit.set(true);
                return Err(io::Error::new(io::ErrorKind::Other, "injected fault"));
            }
            self.ctl.countdown.set(Some(n - 1));
        }
        Ok(())
    }
}
impl Write for FaultySink {
    fn write(&mut self, buf: &[u8]) -> io::Result<usize> {
        self.tick()?;
        self.inner.write(buf)
    }
    fn flush(&mut self) -> io::Result<()> {
        self.tick()?;
        Ok(())
    }
}
impl Seek for FaultySink {
    fn seek(&mut self, pos: SeekFrom) -> io::Result<u64> {
        self.tick()?;
        self.inner.seek(pos)
    }
}

fn stored() -> FileOptions {
    FileOptions::default().compression_method(CompressionMethod::Stored)
}

fn names(bytes: &[u8]) -> Vec<String> {
    let mut ar = ZipArchive::new(Cursor::new(bytes.to_vec()))
        .expect("an archive written by a successful finish() must open");
    (0..ar.len())
        .map(|i| ar.by_index_raw(i).unwrap().name().to_string())
        .collect()
}

fn content(bytes: &[u8], name: &str) -> Vec<u8> {
    let mut ar = ZipArchive::new(Cursor::new(bytes.to_vec())).unwrap();
    let mut f = ar.by_name(name).unwrap();
    let mut out = Vec::new();
    f.read_to_end(&mut out)
        .unwrap_or_else(|e| panic!("entry {name} must be readable: {e}"));
    out
}

#[test]
fn raw_copy_that_breaks_off_leaves_no_entry() {
    // source archive: one stored entry of 100 KiB (io::copy needs several reads for it)
    let big: Vec<u8> = (0..100 * 1024u32).map(|i| (i % 251) as u8).collect();
    let mut src = ZipWriter::new(Cursor::new(Vec::new()));
    src.start_file("big", stored()).unwrap();
    src.write_all(&big).unwrap();
    let src_bytes = src.finish().unwrap().into_inner();

    let budget = Rc::new(Cell::new(None));
    let mut src = ZipArchive::new(FailingSource {
        inner: Cursor::new(src_bytes),
        reads_left: budget.clone(),
    })
    .unwrap();

    let mut w = ZipWriter::new(Cursor::new(Vec::new()));
    w.start_file("first", stored()).unwrap();
    w.write_all(b"first entry").unwrap();

    let file = src.by_index_raw(0).unwrap();
    budget.set(Some(3)); // the source delivers three more reads, then fails
    let res = w.raw_copy_file(file);
    assert!(res.is_err(), "the raw copy must report the read error of its source");

    // The copy failed: no file is open, so this data has nowhere to go.
    let stray = w.write(b"stray bytes");

    w.start_file("last", stored()).unwrap();
    w.write_all(b"last entry").unwrap();
    let out = w.finish().expect("finish() is valid here").into_inner();

    assert_eq!(
        names(&out),
        vec!["first".to_string(), "last".to_string()],
        "expected exactly the entries whose creation succeeded (first, last): the raw copy that \
         returned Err must not be listed (it holds only part of its source's content)"
    );
    assert!(
        stray.is_err(),
        "a write after the failed raw copy was accepted ({stray:?}) although no file is open"
    );
    assert_eq!(content(&out, "first"), b"first entry");
    assert_eq!(content(&out, "last"), b"last entry");
}

/// `create` as the first call on a new writer, with exactly one sink operation failing inside it;
/// then a stray write; then one more entry. (Nothing is open when `create` is called, so the
/// fault can only hit the creation of the new entry.)
fn sweep(
    what: &str,
    with_stray_write: bool,
    create: impl Fn(&mut ZipWriter<FaultySink>) -> zip::result::ZipResult<()>,
) {
    let mut violations = Vec::new();
    let mut faults = 0;
    for k in 0..200 {
        let ctl = Rc::new(Ctl::default());
        let mut w = ZipWriter::new(FaultySink { inner: Cursor::new(Vec::new()), ctl: ctl.clone() });

        ctl.countdown.set(Some(k));
        let res = create(&mut w);
        ctl.countdown.set(None);
        if !ctl.hit.get() {
            break; // k lies behind the last sink operation of the call
        }
        faults += 1;
        assert!(res.is_err(), "{what}: sink operation {k} failed, the call must report it");

        let stray = if with_stray_write {
            w.write(b"stray bytes")
        } else {
            Err(io::Error::new(io::ErrorKind::Other, "no stray write in this run"))
        };
        if let Err(e) = w.start_file("last", stored()) {
            violations.push(format!(
                "{what}: fault at sink operation {k}: start_file() after the failed call returned \
                 Err({e}) (the stray write returned {stray:?}); expected it to succeed, nothing is open"
            ));
            continue;
        }
        w.write_all(b"last entry").unwrap();
        let out = w.finish().expect("finish() is valid here").inner.into_inner();

        let got = names(&out);
        if got != ["last"] {
            violations.push(format!(
                "{what}: fault at sink operation {k}: the call returned Err, finish() succeeded, \
                 the archive lists {got:?}; expected exactly [last]"
            ));
        }
        if stray.is_ok() {
            violations.push(format!(
                "{what}: fault at sink operation {k}: write() after the failed call returned \
                 {stray:?}; expected an error (no file is open)"
            ));
        }
        assert_eq!(content(&out, "last"), b"last entry");
    }
    assert!(faults > 0);
    assert!(violations.is_empty(), "\n{}", violations.join("\n"));
}

#[test]
fn symlink_whose_target_cannot_be_written_leaves_no_entry() {
    sweep("add_symlink", true, |w| {
        w.add_symlink("link", "target/of/the/link", FileOptions::default())
    });
}

#[test]
fn aligned_file_whose_padding_cannot_be_placed_leaves_no_entry() {
    sweep("start_file_aligned", false, |w| {
        w.start_file_aligned("aligned", stored(), 64).map(|_| ())
    });
    sweep("start_file_aligned", true, |w| {
        w.start_file_aligned("aligned", stored(), 64).map(|_| ())
    });
}

/// The same defect without any I/O fault: an alignment that the 16-bit extra field cannot provide
/// is refused - but the entry that was begun for it stays, stuck in extra-data mode, and every
/// later call (start_file, finish) fails with the same error.
#[test]
fn refused_alignment_leaves_the_writer_usable() {
    let mut w = ZipWriter::new(Cursor::new(Vec::new()));
    w.start_file("p", stored()).unwrap();
    // the data of the next entry would start at 31 + 65470 + 31 = 65532: aligning it to 65535
    // takes more padding than an extra field can hold
    w.write_all(&vec![7u8; 65470]).unwrap();
    let res = w.start_file_aligned("a", stored(), 65535);
    assert!(res.is_err(), "this alignment cannot be provided, expected an error, got {res:?}");

    let last = w.start_file("last", stored());
    assert!(
        last.is_ok(),
        "start_file() after the refused start_file_aligned() is valid and must succeed, got {last:?}"
    );
    w.write_all(b"last entry").unwrap();
    let fin = w.finish();
    assert!(
        fin.is_ok(),
        "finish() after the refused start_file_aligned() is valid and must succeed, got {:?}",
        fin.as_ref().map(|_| ())
    );
    let out = fin.unwrap().into_inner();
    assert_eq!(
        names(&out),
        vec!["p".to_string(), "last".to_string()],
        "expected exactly the entries whose creation succeeded"
    );
    assert_eq!(content(&out, "p"), vec![7u8; 65470]);
    assert_eq!(content(&out, "last"), b"last entry");
}
