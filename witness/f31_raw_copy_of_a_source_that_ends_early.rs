// C14 - raw copy must transfer the compressed bytes of the entry exactly, or fail.
//
// `ZipWriter::raw_copy_file` / `raw_copy_file_rename` write the local header of the copy with the
// compressed size of the source entry and then `io::copy` whatever the source reader delivers.
// When the source ends early (the archive file was cut after it had been opened, or the central
// directory declares more compressed bytes than the file holds) the number of bytes copied is
// not compared with the declared size: the call returns Ok(()), the copy claims N compressed
// bytes but only M < N were written, and the next entry's header is placed inside that range.

use std::cell::Cell;
use std::io::{self, Cursor, Read, Seek, SeekFrom, Write};
use std::rc::Rc;
use zip::write::FileOptions;
use zip::{CompressionMethod, ZipArchive, ZipWriter};

fn body() -> Vec<u8> {
    (0..20_000u32).map(|x| (x.wrapping_mul(2654435761) >> 13) as u8).collect()
}

/// A file whose length can shrink while it is open (another process truncates it).
struct Shrinkable {
    inner: Cursor<Vec<u8>>,
    len: Rc<Cell<u64>>,
}
impl Read for Shrinkable {
    fn read(&mut self, buf: &mut [u8]) -> io::Result<usize> {
        let left = self.len.get().saturating_sub(self.inner.position());
        let n = (buf.len() as u64).min(left) as usize;
        self.inner.read(&mut buf[..n])
    }
}
impl Seek for Shrinkable {
    fn seek(&mut self, pos: SeekFrom) -> io::Result<u64> {
        match pos {
            SeekFrom::End(d) => {
                let target = self.len.get() as i64 + d;
                self.inner.seek(SeekFrom::Start(target.max(0) as u64))
            }
            other => self.inner.seek(other),
        }
    }
}

#[test]
fn raw_copy_of_an_entry_whose_source_ends_early_must_not_succeed() {
    let body = body();
    let mut w = ZipWriter::new(Cursor::new(Vec::new()));
    w.start_file("data.bin", FileOptions::default().compression_method(CompressionMethod::Stored))
        .unwrap();
    w.write_all(&body).unwrap();
    let bytes = w.finish().unwrap().into_inner();

    let len = Rc::new(Cell::new(bytes.len() as u64));
    let mut src = ZipArchive::new(Shrinkable { inner: Cursor::new(bytes), len: len.clone() }).unwrap();
    let (data_start, compressed_size) = {
        let f = src.by_index_raw(0).unwrap();
        (f.data_start(), f.compressed_size())
    };
    assert_eq!(compressed_size, body.len() as u64);

    // the archive file is cut in the middle of the entry's data after it has been opened
    let kept = 7_000u64;
    len.set(data_start + kept);

    let mut w = ZipWriter::new(Cursor::new(Vec::new()));
    w.start_file("before.txt", FileOptions::default()).unwrap();
    w.write_all(b"before").unwrap();
    let result = w.raw_copy_file(src.by_index_raw(0).unwrap());
    w.start_file("after.txt", FileOptions::default()).unwrap();
    w.write_all(b"after").unwrap();
    let out = w.finish().unwrap().into_inner();

    if result.is_ok() {
        // what the "successful" copy looks like
        let mut dst = ZipArchive::new(Cursor::new(out)).unwrap();
        let mut raw = Vec::new();
        let (claimed, copy_start) = {
            let mut f = dst.by_name("data.bin").unwrap();
            let claimed = f.compressed_size();
            let _ = f.read_to_end(&mut raw);
            (claimed, f.data_start())
        };
        let after_header = dst.by_name("after.txt").unwrap().header_start();
        panic!(
            "C14: raw_copy_file returned Ok(()) although only {kept} of the {compressed_size} compressed \
             bytes of the source entry could be read; expected an error. The copy claims \
             compressed_size = {claimed} but only {kept} bytes were transferred: its data range \
             {copy_start}..{} swallows the local header of the following entry at {after_header}, \
             and it decodes to {} bytes of which the first {kept} are the source's: {}",
            copy_start + claimed,
            raw.len(),
            raw.len() >= kept as usize && raw[..kept as usize] == body[..kept as usize]
        );
    }
}

fn le16(v: &mut Vec<u8>, x: u16) {
    v.extend_from_slice(&x.to_le_bytes())
}
fn le32(v: &mut Vec<u8>, x: u32) {
    v.extend_from_slice(&x.to_le_bytes())
}

/// One stored entry "a.txt" holding `data`, whose headers declare `declared` (un)compressed bytes.
fn archive_declaring(data: &[u8], declared: u32) -> Vec<u8> {
    let name = b"a.txt";
    let mut out = Vec::new();
    le32(&mut out, 0x04034b50);
    le16(&mut out, 20);
    le16(&mut out, 0);
    le16(&mut out, 0);
    le16(&mut out, 0x6b3c);
    le16(&mut out, 0x5821);
    le32(&mut out, 0x12345678);
    le32(&mut out, declared);
    le32(&mut out, declared);
    le16(&mut out, name.len() as u16);
    le16(&mut out, 0);
    out.extend_from_slice(name);
    out.extend_from_slice(data);
    let cd_start = out.len() as u32;
    le32(&mut out, 0x02014b50);
    le16(&mut out, (3 << 8) | 20);
    le16(&mut out, 20);
    le16(&mut out, 0);
    le16(&mut out, 0);
    le16(&mut out, 0x6b3c);
    le16(&mut out, 0x5821);
    le32(&mut out, 0x12345678);
    le32(&mut out, declared);
    le32(&mut out, declared);
    le16(&mut out, name.len() as u16);
    le16(&mut out, 0);
    le16(&mut out, 0);
    le16(&mut out, 0);
    le16(&mut out, 0);
    le32(&mut out, 0o100644 << 16);
    le32(&mut out, 0);
    out.extend_from_slice(name);
    let cd_size = out.len() as u32 - cd_start;
    le32(&mut out, 0x06054b50);
    le16(&mut out, 0);
    le16(&mut out, 0);
    le16(&mut out, 1);
    le16(&mut out, 1);
    le32(&mut out, cd_size);
    le32(&mut out, cd_start);
    le16(&mut out, 0);
    out
}

#[test]
fn raw_copy_of_an_entry_declared_longer_than_the_archive_must_not_succeed() {
    // the entry declares 100000 compressed bytes, the whole archive is about 150 bytes long
    let declared = 100_000u32;
    let bytes = archive_declaring(b"only these bytes are there", declared);
    let archive_len = bytes.len();
    let mut src = ZipArchive::new(Cursor::new(bytes)).unwrap();

    // what can be read of the source entry
    let mut src_raw = Vec::new();
    src.by_index_raw(0).unwrap().read_to_end(&mut src_raw).unwrap();
    assert!(src_raw.len() < archive_len);

    let mut w = ZipWriter::new(Cursor::new(Vec::new()));
    let result = w.raw_copy_file_rename(src.by_index_raw(0).unwrap(), "copy.txt");
    w.start_file("after.txt", FileOptions::default().compression_method(CompressionMethod::Stored))
        .unwrap();
    w.write_all(&[b'x'; 500]).unwrap();
    let out = w.finish().unwrap().into_inner();

    if result.is_ok() {
        let mut dst = ZipArchive::new(Cursor::new(out)).unwrap();
        let mut dst_raw = Vec::new();
        let claimed = {
            let mut f = dst.by_index_raw(0).unwrap();
            f.read_to_end(&mut dst_raw).unwrap();
            f.compressed_size()
        };
        assert!(
            dst_raw == src_raw,
            "C14: raw_copy_file_rename returned Ok(()) for an entry of which only {} of the declared \
             {declared} compressed bytes exist; expected an error, or at least a copy with identical \
             compressed bytes. The copy claims compressed_size = {claimed}; its compressed bytes are \
             {} long and differ from the source's ({} bytes): behind the bytes that were transferred \
             they continue with the headers and data of the entry written after it",
            src_raw.len(),
            dst_raw.len(),
            src_raw.len()
        );
    }
}
