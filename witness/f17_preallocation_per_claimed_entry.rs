//! C05 finding 2: `ZipArchive::new` pre-allocates ~245 bytes of heap per *claimed* entry as long
//! as the claimed entry count does not exceed the byte offset of the end record, i.e. up to one
//! entry per input byte. A file of N junk bytes plus 98 bytes of (internally valid) ZIP64 end
//! records therefore makes "opening" allocate ~245 x N bytes before the first central header
//! is even looked at (4 MB of zeros -> 980 MB; an honest archive needs ~3x its length).
//!
//! Integration test, public API + std only (the counting allocator is std). Fails on the
//! unchanged crate; passes once the plausibility check divides by the minimum size of a central
//! directory header (46 bytes) or the pre-allocation is dropped.

use std::alloc::{GlobalAlloc, Layout, System};
use std::io::Cursor;
use std::sync::atomic::{AtomicUsize, Ordering};

struct Counting;
static CUR: AtomicUsize = AtomicUsize::new(0);
static PEAK: AtomicUsize = AtomicUsize::new(0);

unsafe impl GlobalAlloc for Counting {
    unsafe fn alloc(&self, l: Layout) -> *mut u8 {
        let p = System.alloc(l);
        if !p.is_null() {
            let c = CUR.fetch_add(l.size(), Ordering::Relaxed) + l.size();
            PEAK.fetch_max(c, Ordering::Relaxed);
        }
        p
    }
    unsafe fn dealloc(&self, p: *mut u8, l: Layout) {
        CUR.fetch_sub(l.size(), Ordering::Relaxed);
        System.dealloc(p, l)
    }
    unsafe fn realloc(&self, p: *mut u8, l: Layout, new: usize) -> *mut u8 {
        let q = System.realloc(p, l, new);
        if !q.is_null() {
            if new >= l.size() {
                let c = CUR.fetch_add(new - l.size(), Ordering::Relaxed) + new - l.size();
                PEAK.fetch_max(c, Ordering::Relaxed);
            } else {
                CUR.fetch_sub(l.size() - new, Ordering::Relaxed);
            }
        }
        q
    }
}
#[global_allocator]
static A: Counting = Counting;

fn le16(v: &mut Vec<u8>, x: u16) {
    v.extend_from_slice(&x.to_le_bytes());
}
fn le32(v: &mut Vec<u8>, x: u32) {
    v.extend_from_slice(&x.to_le_bytes());
}
fn le64(v: &mut Vec<u8>, x: u64) {
    v.extend_from_slice(&x.to_le_bytes());
}

/// `filler` zero bytes posing as the central directory, then ZIP64 end record, locator and
/// classic end record that claim `n_claimed` entries.
fn lying_zip64(n_claimed: u64, filler: usize) -> Vec<u8> {
    let mut v = vec![0u8; filler];
    let z = v.len() as u64;
    le32(&mut v, 0x06064b50);
    le64(&mut v, 44);
    le16(&mut v, 45);
    le16(&mut v, 45);
    le32(&mut v, 0);
    le32(&mut v, 0);
    le64(&mut v, n_claimed);
    le64(&mut v, n_claimed);
    le64(&mut v, filler as u64); // central directory size
    le64(&mut v, 0); // central directory offset
    le32(&mut v, 0x07064b50);
    le32(&mut v, 0);
    le64(&mut v, z);
    le32(&mut v, 1);
    le32(&mut v, 0x06054b50);
    le16(&mut v, 0);
    le16(&mut v, 0);
    le16(&mut v, 0xFFFF);
    le16(&mut v, 0xFFFF);
    le32(&mut v, 0xFFFF_FFFF);
    le32(&mut v, 0xFFFF_FFFF);
    le16(&mut v, 0);
    v
}

/// 65535 zero bytes + a classic 22-byte end record claiming 65535 entries.
fn lying_classic(n_claimed: u16, filler: usize) -> Vec<u8> {
    let mut v = vec![0u8; filler];
    le32(&mut v, 0x06054b50);
    le16(&mut v, 0);
    le16(&mut v, 0);
    le16(&mut v, n_claimed);
    le16(&mut v, n_claimed);
    le32(&mut v, filler as u32);
    le32(&mut v, 0);
    le16(&mut v, 0);
    v
}

fn peak_while_opening(bytes: Vec<u8>) -> (usize, bool) {
    let c = Cursor::new(bytes);
    let base = CUR.load(Ordering::Relaxed);
    PEAK.store(base, Ordering::Relaxed);
    let r = zip::ZipArchive::new(c);
    let peak = PEAK.load(Ordering::Relaxed).saturating_sub(base);
    (peak, r.is_ok())
}

// one #[test] only: the allocator counters are process-wide
#[test]
fn memory_while_opening_is_a_modest_multiple_of_the_input_length() {
    // An honest archive costs ~3x its length (184-byte record + map slot per 78-byte entry), and a
    // count that is merely "possible" (one 46-byte central header each) would cost ~5.3x: 16x is generous.
    const MODEST: usize = 16;
    let mut failures = Vec::new();
    for (tag, input) in [
        ("zip64, 1_000_000 junk bytes, 1_000_000 entries claimed", lying_zip64(1_000_000, 1_000_000)),
        ("classic, 65535 junk bytes, 65535 entries claimed", lying_classic(65535, 65535)),
    ] {
        let len = input.len();
        let (peak, ok) = peak_while_opening(input);
        println!("{tag}: input {len} bytes, opened={ok}, peak heap while opening {peak} bytes = {:.1}x", peak as f64 / len as f64);
        assert!(!ok, "the junk must not open");
        if peak > MODEST * len {
            failures.push(format!(
                "{tag}: input {len} bytes, peak heap while opening {peak} bytes = {:.1}x the input",
                peak as f64 / len as f64
            ));
        }
    }
    assert!(failures.is_empty(), "{failures:#?}");
}
