// Witness for F1 (C09, C15): ZipCrypto decryption must not depend on how the
// underlying reader splits its reads. Fails before the fix (keys advanced over
// the whole buffer), passes after.
use std::io::{self, Cursor, Read, Seek, SeekFrom, Write};
use zip::unstable::write::FileOptionsExt;

struct Short<R>(R, usize);
impl<R: Read> Read for Short<R> {
    fn read(&mut self, buf: &mut [u8]) -> io::Result<usize> {
        let n = buf.len().min(self.1);
        self.0.read(&mut buf[..n])
    }
}
impl<R: Seek> Seek for Short<R> {
    fn seek(&mut self, p: SeekFrom) -> io::Result<u64> {
        self.0.seek(p)
    }
}

#[test]
fn zipcrypto_short_reads_give_same_bytes() {
    let content: Vec<u8> = (0..200u32).map(|i| (i * 7 + 3) as u8).collect();
    let mut w = zip::ZipWriter::new(Cursor::new(Vec::new()));
    let opts = zip::write::FileOptions::default()
        .compression_method(zip::CompressionMethod::Stored)
        .with_deprecated_encryption(b"secret");
    w.start_file("a.bin", opts).unwrap();
    w.write_all(&content).unwrap();
    let bytes = w.finish().unwrap().into_inner();

    for chunk in [1usize, 2, 3, 5] {
        let mut ar = zip::ZipArchive::new(Short(Cursor::new(bytes.clone()), chunk)).unwrap();
        let mut f = ar.by_index_decrypt(0, b"secret").unwrap().unwrap();
        let mut got = Vec::new();
        let mut buf = [0u8; 16];
        loop {
            match f.read(&mut buf) {
                Ok(0) => break,
                Ok(n) => got.extend_from_slice(&buf[..n]),
                Err(e) => panic!("read error with chunk {chunk}: {e}"),
            }
        }
        assert_eq!(got, content, "chunk {chunk}");
    }
}
