//! C17: well-formed extra data with an unreserved header ID is accepted by the extra-data calls
//! and stored verbatim - but when it is the central extra data of the LAST entry, its tail lies
//! directly in front of the end-of-central-directory record, where the reader looks for a ZIP64
//! locator. Payload bytes that look like a locator (and, optionally, like a ZIP64 end record)
//! are believed although no field of the end record is all ones: the archive cannot be opened,
//! or it opens with NO entries, and `new_append` + `finish` then overwrite the real directory.

use std::io::{Cursor, Read, Write};
use zip::write::FileOptions;
use zip::{CompressionMethod, ZipArchive, ZipWriter};

fn record(kind: u16, payload: &[u8]) -> Vec<u8> {
    let mut v = Vec::new();
    v.extend_from_slice(&kind.to_le_bytes());
    v.extend_from_slice(&(payload.len() as u16).to_le_bytes());
    v.extend_from_slice(payload);
    v
}

/// 20 bytes: 50 4b 06 07, disk 0, offset 0 of the ZIP64 end record, one disk
fn locator_look_alike() -> Vec<u8> {
    let mut p = vec![0x50, 0x4b, 0x06, 0x07];
    p.extend_from_slice(&0u32.to_le_bytes());
    p.extend_from_slice(&0u64.to_le_bytes());
    p.extend_from_slice(&1u32.to_le_bytes());
    p
}

/// 56 bytes: a ZIP64 end record that declares an empty directory
fn zip64_end_look_alike() -> Vec<u8> {
    let mut p = vec![0x50, 0x4b, 0x06, 0x06];
    p.extend_from_slice(&44u64.to_le_bytes());
    p.extend_from_slice(&45u16.to_le_bytes());
    p.extend_from_slice(&45u16.to_le_bytes());
    p.extend_from_slice(&[0u8; 4 + 4 + 8 + 8 + 8 + 8]);
    p
}

/// Two entries; the second one carries `extra` (as local and central, or as central data only).
fn archive_with(extra: &[u8], central_only: bool) -> Vec<u8> {
    let mut w = ZipWriter::new(Cursor::new(Vec::new()));
    let o = FileOptions::default().compression_method(CompressionMethod::Stored);
    w.start_file("plain", o).unwrap();
    w.write_all(b"plain content").unwrap();
    w.start_file_with_extra_data("with-extra", o).unwrap();
    if central_only {
        w.end_local_start_central_extra_data().unwrap();
    }
    w.write_all(extra).unwrap();
    w.end_extra_data()
        .expect("a complete record with an unreserved header ID is accepted");
    w.write_all(b"content").unwrap();
    w.finish().unwrap().into_inner()
}

fn check(extra: &[u8], what: &str) {
    for central_only in [false, true] {
        let bytes = archive_with(extra, central_only);
        let mut a = match ZipArchive::new(Cursor::new(bytes)) {
            Ok(a) => a,
            Err(e) => panic!(
                "C17: accepted extra data must be returned by the reader; with {what} \
                 (central_only={central_only}) the archive cannot be opened: {e:?}"
            ),
        };
        assert_eq!(
            a.len(),
            2,
            "C17: accepted extra data must be returned by the reader; with {what} \
             (central_only={central_only}) the archive of 2 entries opens with {} entries",
            a.len()
        );
        let mut f = a.by_name("with-extra").unwrap();
        assert_eq!(f.extra_data(), extra, "central extra data is returned verbatim");
        let mut s = String::new();
        f.read_to_string(&mut s).unwrap();
        assert_eq!(s, "content");
    }
}

#[test]
fn extra_data_that_ends_like_a_zip64_locator() {
    check(&record(0xbeef, &locator_look_alike()), "a payload ending like a ZIP64 locator");
}

#[test]
fn extra_data_that_holds_a_zip64_end_record_and_locator() {
    let mut p = zip64_end_look_alike();
    p.extend_from_slice(&locator_look_alike());
    check(&record(0xbeef, &p), "a payload holding a ZIP64 end record and locator");
}

#[test]
fn append_to_an_archive_with_such_extra_data() {
    let mut p = zip64_end_look_alike();
    p.extend_from_slice(&locator_look_alike());
    let extra = record(0xbeef, &p);
    let bytes = archive_with(&extra, true);
    let mut w = ZipWriter::new_append(Cursor::new(bytes)).expect("new_append");
    w.start_file("third", FileOptions::default()).unwrap();
    let bytes = w.finish().unwrap().into_inner();
    let mut a = ZipArchive::new(Cursor::new(bytes)).expect("open after append");
    assert_eq!(
        a.len(),
        3,
        "C17: one entry appended to an archive of two (the second with extra data): the reader \
         must still return all of them, found {}",
        a.len()
    );
    assert_eq!(a.by_name("with-extra").unwrap().extra_data(), &extra[..]);
}
