// C17 finding 1: an alignment / extra-data request on a ZipCrypto-encrypted entry panics
// ("Should have switched to stored and unencrypted beforehand") instead of being honoured or
// refused with an error.  (Dropping the writer afterwards panics a second time, which aborts the
// process when it happens during unwinding; the writers below are therefore kept in ManuallyDrop.)
use std::io::{Cursor, Read, Write};
use std::mem::ManuallyDrop;
use std::panic::{catch_unwind, AssertUnwindSafe};
use zip::unstable::write::FileOptionsExt;
use zip::write::FileOptions;
use zip::{CompressionMethod, ZipArchive, ZipWriter};

fn msg(p: Box<dyn std::any::Any + Send>) -> String {
    p.downcast_ref::<String>()
        .cloned()
        .or_else(|| p.downcast_ref::<&str>().map(|s| s.to_string()))
        .unwrap_or_default()
}

fn enc_opts() -> FileOptions {
    FileOptions::default()
        .compression_method(CompressionMethod::Stored)
        .with_deprecated_encryption(b"password")
}

/// Either outcome allowed by the property is accepted: Ok (then the entry must be aligned and must
/// round-trip) or Err (a refusal). A panic is neither.
fn check_aligned(align: u16) {
    let mut zw = ManuallyDrop::new(ZipWriter::new(Cursor::new(Vec::new())));
    let started = catch_unwind(AssertUnwindSafe(|| zw.start_file_aligned("enc", enc_opts(), align)));
    let started = match started {
        Ok(r) => r,
        Err(p) => panic!("start_file_aligned(align = {align}) on an encrypted entry panicked: {}", msg(p)),
    };
    if started.is_err() {
        // refused with an error: fine, but closing the archive must not panic either
        let fin = catch_unwind(AssertUnwindSafe(|| zw.finish().map(|_| ())));
        assert!(fin.is_ok(), "finish() panicked after the refusal");
        return;
    }
    zw.write_all(b"secret content").unwrap();
    let bytes = zw.finish().unwrap().into_inner();
    let mut za = ZipArchive::new(Cursor::new(bytes)).unwrap();
    let mut f = za.by_index_decrypt(0, b"password").unwrap().unwrap();
    if align > 1 {
        assert_eq!(f.data_start() % align as u64, 0, "encrypted entry is not aligned");
    }
    let mut got = Vec::new();
    f.read_to_end(&mut got).unwrap();
    assert_eq!(got, b"secret content");
}

#[test]
fn aligned_encrypted_entry_does_not_panic() {
    for align in [0u16, 1, 2, 64, 4096] {
        check_aligned(align);
    }
}

#[test]
fn extra_data_on_encrypted_entry_does_not_panic() {
    let mut zw = ManuallyDrop::new(ZipWriter::new(Cursor::new(Vec::new())));
    let started = zw.start_file_with_extra_data("enc", enc_opts());
    if started.is_err() {
        return; // refused up front: acceptable
    }
    // one unreserved record: id 0xbeef, 3 bytes
    zw.write_all(&[0xef, 0xbe, 3, 0, b'a', b'b', b'c']).unwrap();
    let ended = catch_unwind(AssertUnwindSafe(|| zw.end_extra_data()));
    let ended = match ended {
        Ok(r) => r,
        Err(p) => panic!("end_extra_data on an encrypted entry panicked: {}", msg(p)),
    };
    if ended.is_err() {
        return; // refused with an error: acceptable
    }
    zw.write_all(b"secret content").unwrap();
    let bytes = zw.finish().unwrap().into_inner();
    let mut za = ZipArchive::new(Cursor::new(bytes)).unwrap();
    let mut f = za.by_index_decrypt(0, b"password").unwrap().unwrap();
    assert_eq!(f.extra_data(), &[0xef, 0xbe, 3, 0, b'a', b'b', b'c']);
    assert_eq!(f.data_start(), ended.unwrap());
    let mut got = Vec::new();
    f.read_to_end(&mut got).unwrap();
    assert_eq!(got, b"secret content");
}
