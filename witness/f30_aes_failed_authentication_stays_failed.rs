//! C04 demo: the WinZip-AES reader forgets that the authentication of an entry failed.
//!
//! `AesReaderValid::check_auth_code` marks the reader `finalized` *before* it has read and
//! compared the authentication code.  When the check fails (tampered ciphertext) or cannot be
//! completed (the read of the code itself fails), the error is reported once - and every later
//! `read` finds `data_remaining == 0 && finalized` and answers `Ok(0)`: a clean end-of-file for
//! an AE-2 entry (no CRC) whose data was never authenticated.  The CRC path behaves differently:
//! `Crc32Reader` repeats "Invalid checksum" on every further read.
#![cfg(feature = "aes-crypto")]

use std::cell::Cell;
use std::io::{self, Cursor, Read, Seek, SeekFrom, Write};
use std::rc::Rc;
use zip::ZipArchive;

use aes::cipher::{generic_array::GenericArray, BlockEncrypt, KeyInit};
use hmac::{Hmac, Mac};
use sha1::Sha1;

const AES_ARCHIVE: &[u8] = include_bytes!("data/aes_archive.zip");
const PASSWORD: &[u8] = b"helloworld";
const SECRET_CONTENT: &[u8] = b"Lorem ipsum dolor sit amet";

/// Position of the first byte of the entry's data (salt) in the archive.
fn data_start_of(archive: &[u8], name: &str) -> (usize, usize) {
    let mut a = ZipArchive::new(Cursor::new(archive.to_vec())).unwrap();
    let f = a.by_name_decrypt(name, PASSWORD).unwrap().unwrap();
    (f.data_start() as usize, f.compressed_size() as usize)
}

/// A consumer that treats one kind of error as transient and asks again, exactly like
/// `read_to_end` does for `ErrorKind::Interrupted`.  `Ok(data)` means: end-of-file was reported.
fn read_retrying(
    r: &mut impl Read,
    chunk: usize,
    retry: impl Fn(&io::Error) -> bool,
) -> io::Result<Vec<u8>> {
    let mut out = Vec::new();
    let mut buf = vec![0u8; chunk];
    let mut retries = 0;
    loop {
        match r.read(&mut buf) {
            Ok(0) => return Ok(out),
            Ok(n) => out.extend_from_slice(&buf[..n]),
            Err(e) if retry(&e) && retries < 3 => retries += 1,
            Err(e) => return Err(e),
        }
    }
}

/// Tampered AE-2 entry (stored): the first read fails the authentication, the second one must
/// not report a clean end-of-file.
#[test]
fn tampered_ae2_entry_never_reaches_clean_eof() {
    let name = "secret_data_256_uncompressed";
    let (start, csize) = data_start_of(AES_ARCHIVE, name);
    // salt(16) + verifier(2) + ciphertext(26) + code(10)
    assert_eq!(csize, 16 + 2 + SECRET_CONTENT.len() + 10);

    // every byte of the ciphertext and of the authentication code
    for pos in start + 18..start + csize {
        let mut bytes = AES_ARCHIVE.to_vec();
        bytes[pos] ^= 0x20;
        let mut a = ZipArchive::new(Cursor::new(bytes)).unwrap();
        let mut f = a.by_name_decrypt(name, PASSWORD).unwrap().unwrap();
        assert_eq!(f.crc32(), 0, "AE-2 entry: the CRC field is not used");

        let mut data = Vec::new();
        let first = f.read_to_end(&mut data);
        assert!(first.is_err(), "corrupted byte {}: first pass must fail", pos);

        // what any consumer that asks again sees (BufReader::fill_buf, Bytes, a retry loop ...)
        let mut buf = [0u8; 64];
        let second = f.read(&mut buf);
        assert!(
            !matches!(second, Ok(0)),
            "C04: AE-2 entry with corrupted byte {} failed its authentication code ({}), yet the \
             next read reports a clean end-of-file Ok(0): expected the failed authentication to \
             stay an error (as 'Invalid checksum' does for CRC-checked entries)",
            pos,
            first.unwrap_err()
        );
    }
}

/// Reader over the archive that fails once, with a transient error kind, at read call `fail_at`
/// (counted from the moment it is armed).
struct Faulty {
    inner: Cursor<Vec<u8>>,
    armed: Rc<Cell<bool>>,
    calls: Rc<Cell<usize>>,
    fail_at: usize,
}
impl Read for Faulty {
    fn read(&mut self, buf: &mut [u8]) -> io::Result<usize> {
        if self.armed.get() {
            let k = self.calls.get();
            self.calls.set(k + 1);
            if k == self.fail_at {
                return Err(io::Error::new(io::ErrorKind::TimedOut, "transient fault"));
            }
        }
        self.inner.read(buf)
    }
}
impl Seek for Faulty {
    fn seek(&mut self, p: SeekFrom) -> io::Result<u64> {
        self.inner.seek(p)
    }
}

/// Intact archive, one transient I/O fault at read call k (all k): a consumer that retries the
/// failed read either gets the whole, authenticated entry or an error - never a short entry
/// with a clean end-of-file.
#[test]
fn transient_fault_never_gives_short_unauthenticated_entry() {
    let name = "secret_data_256_uncompressed";
    for chunk in [1usize, 7, 26, 4096] {
        for fail_at in 0..40 {
            let armed = Rc::new(Cell::new(false));
            let calls = Rc::new(Cell::new(0));
            let rd = Faulty {
                inner: Cursor::new(AES_ARCHIVE.to_vec()),
                armed: armed.clone(),
                calls: calls.clone(),
                fail_at,
            };
            let mut a = ZipArchive::new(rd).unwrap();
            let mut f = a.by_name_decrypt(name, PASSWORD).unwrap().unwrap();
            armed.set(true);
            let r = read_retrying(&mut f, chunk, |e| e.kind() == io::ErrorKind::TimedOut);
            armed.set(false);
            if let Ok(data) = r {
                assert!(
                    data == SECRET_CONTENT,
                    "C04: intact AE-2 entry, one transient fault at read call {} (chunk {}), the \
                     failed read was retried: end-of-file was reported after {} of {} bytes {:?} - \
                     the bytes decrypted by the failed read are lost and the authentication code \
                     was never compared; expected the complete entry or an error",
                    fail_at,
                    chunk,
                    data.len(),
                    SECRET_CONTENT.len(),
                    String::from_utf8_lossy(&data)
                );
            }
        }
    }
}

// ---- a hand-built AE-2 entry that is deflated (goes through the decoder and authenticate_rest)

fn le16(v: &mut Vec<u8>, x: u16) {
    v.extend_from_slice(&x.to_le_bytes());
}
fn le32(v: &mut Vec<u8>, x: u32) {
    v.extend_from_slice(&x.to_le_bytes());
}

/// salt | password verifier | AES-256-CTR(plain) | HMAC-SHA1-80
fn winzip_aes256(plain: &[u8], pw: &[u8]) -> Vec<u8> {
    let salt = [7u8; 16];
    let mut dk = [0u8; 66];
    pbkdf2::pbkdf2::<Hmac<Sha1>>(pw, &salt, 1000, &mut dk);
    let cipher = aes::Aes256::new(GenericArray::from_slice(&dk[..32]));
    let mut ct = plain.to_vec();
    for (i, chunk) in ct.chunks_mut(16).enumerate() {
        let mut block = GenericArray::clone_from_slice(&((i as u128) + 1).to_le_bytes());
        cipher.encrypt_block(&mut block);
        for (c, k) in chunk.iter_mut().zip(block.iter()) {
            *c ^= *k;
        }
    }
    let mut mac = <Hmac<Sha1> as Mac>::new_from_slice(&dk[32..64]).unwrap();
    mac.update(&ct);
    let tag = mac.finalize().into_bytes();
    let mut out = salt.to_vec();
    out.extend_from_slice(&dk[64..66]);
    out.extend_from_slice(&ct);
    out.extend_from_slice(&tag[..10]);
    out
}

/// One-entry archive: AE-2, AES-256, inner method deflate. The deflate stream is one stored
/// block holding `plain`, followed by `padding` zero bytes (a decoder stops at the end of its
/// stream; the padding is still ciphertext covered by the authentication code).
/// Returns (archive, data start).
fn ae2_deflated_archive(plain: &[u8], padding: usize, pw: &[u8]) -> (Vec<u8>, usize) {
    let mut deflated = vec![0x01];
    le16(&mut deflated, plain.len() as u16);
    le16(&mut deflated, !(plain.len() as u16));
    deflated.extend_from_slice(plain);
    deflated.extend(std::iter::repeat(0u8).take(padding));
    let body = winzip_aes256(&deflated, pw);

    let name = b"e.txt";
    let mut extra = Vec::new();
    le16(&mut extra, 0x9901);
    le16(&mut extra, 7);
    le16(&mut extra, 2); // AE-2
    extra.extend_from_slice(b"AE");
    extra.push(3); // AES-256
    le16(&mut extra, 8); // deflate

    let mut z = Vec::new();
    le32(&mut z, 0x04034b50);
    for x in [51u16, 1, 99, 0, 0x21] {
        le16(&mut z, x);
    }
    le32(&mut z, 0); // CRC: not used by AE-2
    le32(&mut z, body.len() as u32);
    le32(&mut z, plain.len() as u32);
    le16(&mut z, name.len() as u16);
    le16(&mut z, extra.len() as u16);
    z.extend_from_slice(name);
    z.extend_from_slice(&extra);
    let data_start = z.len();
    z.extend_from_slice(&body);
    let cd = z.len();
    le32(&mut z, 0x02014b50);
    for x in [51u16, 51, 1, 99, 0, 0x21] {
        le16(&mut z, x);
    }
    le32(&mut z, 0);
    le32(&mut z, body.len() as u32);
    le32(&mut z, plain.len() as u32);
    le16(&mut z, name.len() as u16);
    le16(&mut z, extra.len() as u16);
    for x in [0u16, 0, 0] {
        le16(&mut z, x);
    }
    le32(&mut z, 0);
    le32(&mut z, 0);
    z.extend_from_slice(name);
    z.extend_from_slice(&extra);
    let cd_len = z.len() - cd;
    le32(&mut z, 0x06054b50);
    for x in [0u16, 0, 1, 1] {
        le16(&mut z, x);
    }
    le32(&mut z, cd_len as u32);
    le32(&mut z, cd as u32);
    le16(&mut z, 0);
    (z, data_start)
}

/// Tampered AE-2 entry (deflated): the decoder delivers the tampered bytes, the rest of the
/// ciphertext is read and the authentication fails - once. Reading on reaches end-of-file.
#[test]
fn tampered_deflated_ae2_entry_never_reaches_clean_eof() {
    let plain: Vec<u8> = (0..3000u32).map(|i| (i * i % 251) as u8).collect();
    // (the padding is longer than the decoder's input buffer, so that the decoder is done before
    // the last of the ciphertext has been pulled through the AES reader)
    let (z, data_start) = ae2_deflated_archive(&plain, 40_000, b"pw");

    // sanity: the hand-built archive is a good one
    {
        let mut a = ZipArchive::new(Cursor::new(z.clone())).unwrap();
        let mut f = a.by_index_decrypt(0, b"pw").unwrap().unwrap();
        assert_eq!(f.compression(), zip::CompressionMethod::Deflated);
        let mut d = Vec::new();
        f.read_to_end(&mut d).unwrap();
        assert_eq!(d, plain);
    }

    let mut bytes = z.clone();
    // salt, verifier, 5 bytes of block header, then the data: flip a bit of data byte 100
    bytes[data_start + 18 + 5 + 100] ^= 0x01;
    let mut a = ZipArchive::new(Cursor::new(bytes)).unwrap();
    let mut f = a.by_index_decrypt(0, b"pw").unwrap().unwrap();
    let mut d = Vec::new();
    let first = f.read_to_end(&mut d);
    assert!(first.is_err(), "first pass over the corrupted entry must fail");
    let mut d2 = Vec::new();
    let second = f.read_to_end(&mut d2);
    assert!(
        second.is_err(),
        "C04: deflated AE-2 entry with a flipped ciphertext bit delivered {} bytes (equal to the \
         original: {}), then failed its authentication code ({}), yet reading on reaches \
         end-of-file successfully ({:?}): expected the failed authentication to stay an error",
        d.len(),
        d == plain,
        first.unwrap_err(),
        second
    );
}
