//! C15: an entry written with a password is stored encrypted - the plaintext does not appear in
//! the file - and reads back exactly with that password.
//!
//! Sequence: start_file("a", password) Ok, write(first) Ok, start_file("b") -> Err because the
//! sink failed one I/O call while entry "a" was being closed (after its compressor and its
//! encryption layer had already been finished).  The writer still considers "a" open, so the
//! caller keeps writing to it: write(more) -> Ok.  Those bytes bypass the encryption (and the
//! compression) and go to the sink as they are, at whatever position the failed close left
//! behind: `more` is in the file in the clear, and "a" cannot be decrypted any more although
//! finish() returns Ok.

use std::io::{self, Cursor, Read, Seek, SeekFrom, Write};
use zip::unstable::write::FileOptionsExt;
use zip::write::FileOptions;
use zip::{CompressionMethod, ZipArchive, ZipWriter};

/// A sink that fails its `fail_at`-th I/O call (write, flush or seek) once, without any effect.
struct FailOnce {
    inner: Cursor<Vec<u8>>,
    calls: usize,
    fail_at: usize,
}
impl FailOnce {
    fn tick(&mut self) -> io::Result<()> {
        let c = self.calls;
        self.calls += 1;
        if c == self.fail_at {
            Err(io::Error::new(io::ErrorKind::Other, "injected fault"))
        } else {
            Ok(())
        }
    }
}
impl Write for FailOnce {
    fn write(&mut self, buf: &[u8]) -> io::Result<usize> {
        self.tick()?;
        self.inner.write(buf)
    }
    fn flush(&mut self) -> io::Result<()> {
        self.tick()
    }
}
impl Seek for FailOnce {
    fn seek(&mut self, pos: SeekFrom) -> io::Result<u64> {
        self.tick()?;
        self.inner.seek(pos)
    }
}

fn decrypt(archive: &[u8], name: &str, password: &[u8]) -> Result<Vec<u8>, String> {
    let mut a = ZipArchive::new(Cursor::new(archive.to_vec())).map_err(|e| format!("open: {e:?}"))?;
    let mut f = a
        .by_name_decrypt(name, password)
        .map_err(|e| format!("by_name_decrypt: {e:?}"))?
        .map_err(|_| "InvalidPassword".to_string())?;
    let mut out = Vec::new();
    f.read_to_end(&mut out).map_err(|e| format!("read: {e:?}"))?;
    Ok(out)
}

fn sweep(method: CompressionMethod) {
    let first = b"first part of the secret, ".to_vec();
    let more = b"SECOND PART OF THE SECRET".to_vec();
    let mut whole = first.clone();
    whole.extend_from_slice(&more);

    let mut failed_starts = 0;
    let mut violations = Vec::new();
    for k in 0..60 {
        let sink = FailOnce { inner: Cursor::new(Vec::new()), calls: 0, fail_at: k };
        let mut w = ZipWriter::new(sink);
        let options = FileOptions::default()
            .compression_method(method)
            .with_deprecated_encryption(b"password");
        if w.start_file("a", options).is_err() || w.write_all(&first).is_err() {
            std::mem::forget(w);
            continue;
        }
        if w.start_file("b", options).is_ok() {
            std::mem::forget(w);
            continue; // the fault did not hit the close of "a"
        }
        failed_starts += 1;
        // "b" could not be started; as far as the writer tells, "a" is still the open entry
        if w.write_all(&more).is_err() {
            std::mem::forget(w);
            continue; // refusing the write is fine
        }
        // the write was accepted: it must have gone into the password-protected entry "a"
        let sink = match w.finish() {
            Ok(s) => s,
            Err(_) => match w.finish() {
                Ok(s) => s,
                Err(_) => {
                    std::mem::forget(w);
                    continue;
                }
            },
        };
        let bytes = sink.inner.into_inner();
        if bytes.windows(more.len()).any(|x| x == &more[..]) {
            violations.push(format!(
                "fault at I/O call {k}: write() to the password-protected entry returned Ok, and its \
                 plaintext {:?} appears in the archive in the clear",
                String::from_utf8_lossy(&more)
            ));
        }
        let got = decrypt(&bytes, "a", b"password");
        if got.as_ref() != Ok(&whole) {
            violations.push(format!(
                "fault at I/O call {k}: all writes to \"a\" and finish() returned Ok, but \"a\" reads back as {:?}",
                got.map(|v| String::from_utf8_lossy(&v).into_owned())
            ));
        }
    }
    assert!(failed_starts > 0, "the sweep must hit the close of entry a");
    assert!(
        violations.is_empty(),
        "C15: what is written to an entry started with a password must be stored encrypted and \
         read back exactly with that password ({method:?}):\n{}",
        violations.join("\n")
    );
}

#[test]
fn write_accepted_after_a_failed_close_is_still_encrypted_stored() {
    sweep(CompressionMethod::Stored);
}

#[test]
fn write_accepted_after_a_failed_close_is_still_encrypted_deflated() {
    sweep(CompressionMethod::Deflated);
}
