#!/bin/bash
# run every Verus unit in parallel against $VERIF_REPO (default /repo); print one line per unit plus failures
cd "$(dirname "$0")/.."
ls contracts/units/*.rs | xargs -n1 basename | sed 's/\.rs$//' | xargs -P 8 -I{} sh -c 'python3 tools/rununit.py {} 2>&1 | grep -E "^path|^FAIL|^UNDEC|^SCAN" | cut -c1-260 | sed "s/^/{}: /"'
