#!/bin/bash
# confirm every delivered mutant not yet stored under /verif/seeded
cd /verif
for d in /tmp/w11/out/C*; do
  p=$(basename $d)
  for k in 16; do
    [ -f $d/m$k.diff ] && [ -f $d/m${k}_demo.rs ] && [ -f $d/m$k.json ] || continue
    name=$p-m$k
    [ -d /verif/seeded/$name ] && continue
    [ -f /tmp/w11/out/$p/m$k.rejected ] && continue
    echo "== confirming $name"
    python3 tools/seed.py confirm $d $k $name 2>&1 | tail -3
    [ -d /verif/seeded/$name ] || touch /tmp/w11/out/$p/m$k.rejected
  done
done
