#!/usr/bin/env python3
"""Regenerate MANIFEST.json from vf/props.py (claimed properties) so the two never disagree."""
import json, sys, os
sys.path.insert(0, os.path.dirname(os.path.dirname(os.path.abspath(__file__))))
from vf import props
ALL = [json.loads(l) for l in open("/verif/properties.jsonl")]
checks = []
for p in ALL:
    pid = p["id"]
    if pid not in props.PROPS:
        continue
    c = props.PROPS[pid]
    checks.append({
        "property_id": pid,
        "quick_cmd": "./check %s --tier quick" % pid,
        "thorough_cmd": "./check %s --tier thorough" % pid,
        "evidence_file": "/verif/evidence/%s.json" % pid,
        "replay_cmd_template": "./check replay {path}",
        "engine": "verus+kani",
        "level_claimed": {"category": "proof", "text": c["level_text"], "design_ref": c.get("design_ref", "DESIGN.md section 5 " + pid)},
        "level_note": c["level_note"],
        "technique": c["technique"],
    })
na = [{"property_id": k, "reason": v} for k, v in props.NOT_APPLICABLE.items()]
for p in ALL:
    if p["id"] not in props.PROPS and p["id"] not in props.NOT_APPLICABLE:
        na.append({"property_id": p["id"], "reason": "not reached yet: the units that would decide it are not built (DESIGN.md section 6, order of construction)"})
m = {
    "version": 1,
    "setup_cmd": "true",
    "hooks": {
        "guard": "cfg(kani)",
        "enable": "no hooks in /repo: checks copy /repo's working tree to a scratch directory outside /repo and /verif and inject Kani harness modules and contract attributes there (cfg(kani) only); Verus units are assembled from /repo's sources on every run",
        "baseline_off_cmd": "cd /repo && cargo test --workspace --no-fail-fast --offline",
        "source_commits": [],
        "add_only": True,
    },
    "engines": [
        {"name": "verus", "path": "/verif/vf/verus.py", "serves_properties": sorted(k for k, v in props.PROPS.items() if v.get("units")),
         "kind_free_text": "Verus 0.2026.09.13 on single-file units assembled each run from functions cut verbatim out of /repo/src with contracts spliced in (vf/assemble.py, transformations T1-T15 of DESIGN.md section 2)"},
        {"name": "kani", "path": "/verif/vf/kani.py", "serves_properties": sorted(k for k, v in props.PROPS.items() if v.get("kani")),
         "kind_free_text": "Kani 0.68 / CBMC 6.11 on a scratch copy of the real crate (default features): complete loop-free harnesses and function contracts over full-domain symbolic inputs; bounded stand-ins labelled as such; concrete playback for counterexamples"},
    ],
    "checks": checks,
    "notes": "Contract-based deductive verification of the real code; see DESIGN.md. Exit codes of ./check: 0 held, 1 VIOLATION, 2 UNDECIDED (lost anchor / unsupported construct / solver limit), never 2 on the unchanged tree.",
    "not_applicable": na,
}
json.dump(m, open("/verif/MANIFEST.json", "w"), indent=1)
print("MANIFEST: %d checks, %d not applicable" % (len(checks), len(na)))
