#!/usr/bin/env python3
"""Regenerate the seeded-mutant table of DESIGN.md section 14 from seeded/*/meta.json."""
import os, json, glob, re
HERE = os.path.dirname(os.path.dirname(os.path.abspath(__file__)))
rows = []
for d in sorted(glob.glob(HERE + "/seeded/*/")):
    n = os.path.basename(d.rstrip("/"))
    try:
        m = json.load(open(d + "meta.json"))
    except Exception:
        continue
    prop = m.get("property")
    det = m.get("detected_by") or []
    own = [x for x in det if x["check"] == prop]
    others = sorted(set(x["check"] for x in det if x["check"] != prop))
    und = m.get("undecided_in") or []
    if m.get("stale"): st = "superseded (" + (m.get("last_status") or "?") + ")"
    elif own: st = "CAUGHT"
    elif prop in und: st = "UNDECIDED"
    elif det: st = "caught by other checks only"
    elif m.get("checked_against"): st = "MISSED"
    else: st = "not run"
    obl = "; ".join(sorted(set(l.strip().replace("failed: ", "") for x in own for l in x["lines"] if "failed:" in l)))[:160]
    if not obl and st == "UNDECIDED":
        obl = ""
    needs = " ".join((m.get("needs") or "").split())[:150]
    rows.append("| %s | %s | %s | %s | %s | %s |" % (n, prop, st, obl.replace("|", "/"), ", ".join(others), needs.replace("|", "/")))
tab = ("| change | breaks | result of that property's check | failing obligation(s) | also caught by | needs, to manifest |\n|---|---|---|---|---|---|\n"
       + "\n".join(rows) + "\n")
c = {}
for r in rows:
    k = r.split("|")[3].strip().split(" at /verif")[0]; k = k + ")" if k.startswith("superseded") else k; c[k] = c.get(k, 0) + 1
tab += "\nTotals: " + ", ".join("%s %d" % kv for kv in sorted(c.items())) + " (of %d).\n" % len(rows)
p = HERE + "/DESIGN.md"
s = open(p).read()
s = re.sub(r"<!-- SEEDED-TABLE-BEGIN -->.*?<!-- SEEDED-TABLE-END -->", "<!-- SEEDED-TABLE-BEGIN -->\n" + tab.replace("\\", "\\\\") + "<!-- SEEDED-TABLE-END -->", s, flags=re.S)
open(p, "w").write(s)
print("table: %d rows" % len(rows), c)
