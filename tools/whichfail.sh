#!/bin/bash
# usage: whichfail.sh <mutant names...> : apply each to a clone and run every Verus unit; print failing clauses
cd /verif
for n in "$@"; do
  d=/var/tmp/wf-$n; rm -rf $d; git clone -q /repo $d
  (cd $d && git apply /verif/seeded/$n/patch.diff) || { echo "$n: PATCH DOES NOT APPLY"; continue; }
  echo "=== $n"
  VERIF_REPO=$d VERIF_WORK=/var/tmp/wf-work-$n bash tools/allunits.sh 2>&1 | grep -E "FAIL|UNDEC|SCAN" | cut -c1-260
  rm -rf $d /var/tmp/wf-work-$n
done
