#!/usr/bin/env python3
"""Regenerate the table of DESIGN.md section 11.1a from vf/props.py and known_findings.json."""
import json, os, re, sys
ROOT = os.path.dirname(os.path.dirname(os.path.abspath(__file__)))
sys.path.insert(0, ROOT)
from vf import props
kf = json.load(open(os.path.join(ROOT, "known_findings.json")))
open_by = {}
for f in kf.get("findings", []):
    ps = f.get("properties") or ([f["property"]] if "property" in f else [])
    for p in ps:
        open_by.setdefault(p, []).append(f.get("id", "?"))
rows = ["| id | Verus units | Kani groups | open known findings | left undecided (beyond the trusted base of 11.3) |", "|---|---|---|---|---|"]
for pid in sorted(props.PROPS):
    c = props.PROPS[pid]
    if not isinstance(c, dict):
        continue
    units = ", ".join(u.split("_")[0] for u in c.get("units", [])) or "-"
    kani = ", ".join(c.get("kani", [])) or "-"
    fnd = ", ".join(sorted(set(open_by.get(pid, [])))) or "-"
    und = "; ".join(c.get("undecided", [])) or "-"
    rows.append("| %s | %s | %s | %s | %s |" % (pid, units, kani, fnd, und.replace("|", "/")))
p = os.path.join(ROOT, "DESIGN.md")
s = open(p).read()
m = re.search(r"(### 11\.1a [^\n]*\n\n)(\|.*?\n)(\n)", s, re.S)
assert m, "section 11.1a not found"
s = s[:m.start(2)] + "\n".join(rows) + "\n" + s[m.end(2):]
open(p, "w").write(s)
print("11.1a: %d rows" % (len(rows) - 2))
