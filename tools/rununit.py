import sys
import os; sys.path.insert(0, os.path.dirname(os.path.dirname(os.path.abspath(__file__))))
from vf import verus, assemble
from vf.rsscan import ScanError
name=sys.argv[1]; twin=len(sys.argv)>2 and sys.argv[2]=='twin'
try:
    r=verus.run_unit(name, twin=twin)
except ScanError as e:
    print("SCANERROR", e); sys.exit(2)
print("path", r.path, "ok", r.ok, "verified", r.verified, "errors", r.errors, "wall %.1f"%r.wall)
for f in r.failures: print("FAIL", f['kind'], f['fn'], f['clause'], f['src']); print(f['rendered'][:1500])
for f in r.undecided[:6]: print("UNDECIDED", f['message'][:200]); print(f['rendered'][:1800])
if '-t' in sys.argv:
    for n, st in sorted(r.fn_stats.items(), key=lambda kv: -(kv[1].get("time_us") or 0))[:12]: print("  %8.2fs rlimit=%s %s" % ((st.get("time_us") or 0)/1e6, st.get("rlimit"), n))
