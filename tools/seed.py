#!/usr/bin/env python3
"""Confirm a seeded mutant delivered by a sub-agent and store it under /verif/seeded/.
usage: seed.py confirm <out_dir> <k> <name>     (out_dir has m<k>.diff, m<k>_demo.rs, m<k>.json)
Runs, in a scratch worktree of /repo (removed afterwards):
  1. demo on the clean tree           -> must pass
  2. apply patch; full test suite     -> must pass
  3. demo with the patch              -> must fail
"""
import sys, os, json, subprocess, shutil, time
def sh(cmd, cwd, timeout=1800):
    p = subprocess.run(cmd, cwd=cwd, shell=True, capture_output=True, text=True, timeout=timeout,
                       env=dict(os.environ, CARGO_NET_OFFLINE="true"))
    return p.returncode, p.stdout + p.stderr
def main():
    _, cmd, out, k, name = sys.argv
    wt = "/var/tmp/seedwt-%s" % name
    subprocess.run(["git", "-C", "/repo", "worktree", "remove", "--force", wt], capture_output=True)
    shutil.rmtree(wt, ignore_errors=True)
    subprocess.check_call(["git", "-C", "/repo", "worktree", "add", "-q", "--detach", wt, "HEAD"])
    ran = []
    ok = False
    try:
        if os.path.isdir("/repo/target"):
            shutil.copytree("/repo/target", wt + "/target", symlinks=True)
        diff = os.path.join(out, "m%s.diff" % k); demo = os.path.join(out, "m%s_demo.rs" % k)
        shutil.copy(demo, wt + "/tests/zz_demo.rs")
        rc, o = sh("cargo test --offline --test zz_demo 2>&1 | tail -15", wt)
        clean_pass = "test result: ok" in o and "FAILED" not in o
        ran.append({"cmd": "demo on clean tree", "pass": clean_pass, "tail": o[-600:]})
        rc, o = sh("git apply %s" % diff, wt)
        ran.append({"cmd": "git apply", "rc": rc, "out": o[-300:]})
        applied = rc == 0
        os.remove(wt + "/tests/zz_demo.rs")
        rc, o = sh("cargo test --offline 2>&1 | grep -E '^test result|FAILED|error(\\[|:)' | head -30", wt)
        suite_pass = applied and "FAILED" not in o and "error" not in o and o.count("test result: ok") >= 9
        ran.append({"cmd": "cargo test --offline (with patch)", "pass": suite_pass, "tail": o[-900:]})
        shutil.copy(demo, wt + "/tests/zz_demo.rs")
        rc, o = sh("cargo test --offline --test zz_demo 2>&1 | tail -30", wt)
        mutant_fail = ("FAILED" in o or "panicked" in o) and "could not compile" not in o
        ran.append({"cmd": "demo with patch", "fails": mutant_fail, "tail": o[-900:]})
        ok = clean_pass and suite_pass and mutant_fail
        meta = json.load(open(os.path.join(out, "m%s.json" % k)))
        if ok:
            d = "/verif/seeded/%s" % name
            os.makedirs(d, exist_ok=True)
            shutil.copy(diff, d + "/patch.diff"); shutil.copy(demo, d + "/demo.rs")
            json.dump({"property": meta.get("property"), "summary": meta.get("summary"), "needs": meta.get("needs"),
                       "files": meta.get("files"), "agent_ran": meta.get("ran"), "confirmed": ran,
                       "base_commit": subprocess.check_output(["git", "-C", "/repo", "rev-parse", "--short", "HEAD"], text=True).strip(),
                       "detected_by": None}, open(d + "/meta.json", "w"), indent=1)
        print(name, "CONFIRMED" if ok else "REJECTED", json.dumps([{k2: v for k2, v in r.items() if k2 != "tail"} for r in ran]))
        if not ok:
            for r in ran: print(r)
    finally:
        subprocess.run(["git", "-C", "/repo", "worktree", "remove", "--force", wt], capture_output=True)
        shutil.rmtree(wt, ignore_errors=True)
main()
