#!/usr/bin/env python3
"""Run every claimed check (quick or thorough) on the current /repo tree, validate evidence files against the
schema, print a summary.  usage: runall.py [--tier thorough] [ids...]"""
import sys, os, json, subprocess, time
import os; sys.path.insert(0, os.path.dirname(os.path.dirname(os.path.abspath(__file__))))
from vf import props
tier = "thorough" if "--tier" in sys.argv and sys.argv[sys.argv.index("--tier") + 1] == "thorough" else "quick"
ids = [a for a in sys.argv[1:] if a.startswith("C")] or sorted(props.PROPS)
bad = 0
for p in ids:
    t = time.time()
    r = subprocess.run(["./check", p, "--tier", tier], cwd=os.path.dirname(os.path.dirname(os.path.abspath(__file__))), capture_output=True, text=True)
    line = (r.stdout.strip().split("\n") or [""])[-1]
    ok = r.returncode == 0
    ev = os.path.join(os.environ.get("VERIF_OUT", os.path.dirname(os.path.dirname(os.path.abspath(__file__)))), "evidence", "%s.json" % p)
    try:
        v = subprocess.run(["python3-vt", "-c", "import json,jsonschema,sys; jsonschema.validate(json.load(open(sys.argv[1])), json.load(open('/root/.vp/EVIDENCE.schema.json')))", ev], capture_output=True, text=True)
        evok = v.returncode == 0
        d = json.load(open(ev)); evok = evok and d["coverage"]["obligations"] == d["coverage"]["discharged"]
    except Exception:
        evok = False
    if not ok or not evok: bad += 1
    print("%s exit=%d evidence=%s %.0fs  %s" % (p, r.returncode, "ok" if evok else "BAD", time.time() - t, line[:160]), flush=True)
    if not ok: print(r.stdout[-1500:])
sys.exit(1 if bad else 0)
