#!/usr/bin/env python3
"""usage: runkani.py <group> [harness ...]   -- run the harnesses of kani/<group>_harness.rs on a scratch copy of /repo"""
import sys, json, time
import os; sys.path.insert(0, os.path.dirname(os.path.dirname(os.path.abspath(__file__))))
from vf import kani
g = sys.argv[1]; only = sys.argv[2:] or None
t = time.time()
r = kani.run_groups([g], 'thorough', None, only=only)
print("wall %.1f" % (time.time() - t))
for h in r['harnesses']:
    print(h['name'], h['status'], 'checks', h['checks'], 'failed', h['failed'], 'cover', h.get('cover'), 'time', h.get('time_s'), h.get('detail', '')[:800])
    if h.get('playback'): print('   playback failed_on_real_code:', h['playback']['failed_on_real_code'])
for u in r['undecided']: print('UNDECIDED', json.dumps(u)[:2000])
