"""Which units / harnesses decide which property, and which witness program can
replay a failed obligation on the real code.  Obligation -> property tags live
in the contract files themselves (contracts/fns/*.vc)."""

# property -> {"units": [verus unit names], "kani": [harness group names], "undecided": [clauses not decided]}
PROPS = {
    "C02": {
        "units": ["U4_end_records", "U5_header_writers"],
        "kani": ["types"],
        "technique": "Verus contracts on the record/header serialisers against APPNOTE layout spec functions (the independent parser), with inverse lemmas",
        "level_text": "Deductive proof, for every entry metadata value and every sink behaviour (short writes, failure at any call), that each serialiser either reports an error or has written exactly the APPNOTE 4.3.7 / 4.3.12 / 4.3.14-16 / 4.5.3 byte layout of its argument: local header, back-patch of CRC/sizes (in place, nothing else touched), central header with the ZIP64 record carrying exactly the saturated fields, end records; the UTF-8 flag is bit 11 exactly for non-ASCII names; name/extra lengths that do not fit 16 bits are refused before anything is written; version-needed is at least what the entry uses.",
        "level_note": "the writer state machine (ZipWriter: offsets recorded = actual positions, ZIP64 end-record decision, comment length check, no overlap) is unit U7 and not under contract yet: listed as undecided; utf8()/is_ascii are vstd/uninterpreted string specs; `impl Write for &mut [u8]` assumed at one call site (T7x)",
        "undecided": ["ZipWriter state machine: recorded offsets/counts/sizes equal actual positions, finalize's ZIP64 decision, archive comment length refusal (unit U7)", "stored CRC/sizes match the decoded data (compressors assumed; writer accounting is unit U7)"],
    },
    "C08": {
        "units": ["U4_end_records", "U5_header_writers", "U6_central_parser"],
        "kani": ["types"],
        "technique": "Verus contracts: ZIP64 writer layouts vs APPNOTE spec functions and the reader's extra-field walk proved against an APPNOTE walk spec (all u64 values, no enumeration)",
        "level_text": "Deductive proof for all 64-bit values (sizes and offsets are symbolic, including 0xFFFFFFFF and its neighbours): the central ZIP64 record carries exactly the fields whose 32-bit header field is saturated, in the fixed order; the local one carries both sizes; the reader's extra-field walk substitutes exactly the saturated fields in that order for any well-formed extra field in any record order (loop invariant against a recursive APPNOTE walk); ZIP64 end record and locator are written and parsed per APPNOTE with inverse lemmas; back-patching refuses a compressed size above 4 GiB without large_file.",
        "level_note": "the writer's thresholds in ZipWriter::write/finalize and get_directory_counts (units U7/U8) are not under contract yet: listed as undecided",
        "undecided": ["write() refusing >4GiB without large_file and poisoning the writer; finalize() ZIP64 end-record decision (unit U7)", "get_directory_counts: ZIP64 locator probe and archive offset (unit U8)"],
    },
    "C03": {
        "units": ["U4_end_records", "U6_central_parser", "U8_entry_readers", "U8b_archive"],
        "kani": ["types"],
        "technique": "Verus contracts on the end-record search/parsers against APPNOTE spec functions; Kani complete harness for the attribute-to-mode table",
        "level_text": "Deductive proof over all byte strings and all I/O outcomes: the end-of-central-directory search returns the last signature occurrence whose record fits (so trailing garbage is tolerated), every field equals the APPNOTE 4.3.16/4.3.15/4.3.14 decode of the bytes at that offset, the ZIP64 forward search returns the first record at or after the nominal offset, and an error is returned only on a device fault or when no well-formed record exists in the window. unix_mode() is proved for all 2^32 attribute words x 256 systems with Kani.",
        "level_note": "I/O model of contracts/shims/io.rs; directory walk, name lookup and data offsets (unit U8) are not under contract yet and are listed as undecided; Vec<u8>::from_cp437 is an assumed contract in Verus (iterator adapters) decided by the Kani cp437 group; derived PartialEq assumed structural; decoders assumed",
        "undecided": ["directory walk, names_map last-wins, by_name/by_index not-found, find_content data offset (units U6/U8)", "entry content equals original bytes (decoders assumed, CRC layer = C04)"],
    },
    "C04": {
        "units": ["U9_crc", "U8_entry_readers"],
        "kani": [],
        "technique": "Verus contracts on Crc32Reader and on the reader-stack constructors (real text, extracted each run) + history lemma",
        "level_text": "Deductive proof, for every inner reader, every buffer size (incl. zero-length) and every short-read schedule, that Crc32Reader::read hashes exactly the bytes it returns and can answer Ok(0) on a non-empty buffer only if the accumulated CRC equals the declared one or the entry is AE-2 (a checked lemma lifts this to any history of reads ending at end-of-file); that make_reader wraps EVERY decoding variant in a fresh Crc32Reader holding the entry's declared CRC and the AE-2 flag, that the flag is true exactly for an AES reader with vendor version AE-2, that ZipFile::get_reader / read and the streaming constructor go through that stack, and that only the raw reader bypasses it.",
        "level_note": "crc32fast assumed to compute CRC-32 (uninterpreted crc32); decompressors and the crypto readers are opaque adapters with assumed contracts in this unit (AES reader proved in U11, ZipCrypto byte level by Kani); by_index/by_name passing the central-directory CRC to the stack is unit U8b (archive level)",
        "undecided": ["by_index_with_optional_password hands the central directory's crc32 and method to make_crypto_reader/ZipFile (archive-level unit, not built yet)"],
    },
    "C05": {
        "units": ["U4_end_records", "U6_central_parser", "U8_entry_readers", "U8b_archive", "U11_aes", "U10_zipcrypto"],
        "kani": ["types"],
        "technique": "Verus panic-freedom and termination obligations on the parsers under the arbitrary-bytes I/O model",
        "level_text": "Deductive proof over ARBITRARY byte strings (the device model puts no constraint on content) and all I/O outcomes that the end-record searches, the central-header parser, the extra-field walk, the local-header locator, the crypto/decoder stack constructors, the streaming local-header reader and the drain-on-drop loop never overflow, index out of range, unwrap a None/Err or reach a panic!, and that every loop terminates (decreases clauses); allocations are bounded by 16-bit length fields read from the input. The method-99 and password-unwrap panics fixed in /repo are pinned by named clauses.",
        "level_note": "memory bound while opening (Vec::with_capacity from the declared count) and the directory loop are in ZipArchive::new (archive-level unit, not built yet); AES reader underflow guard is unit U11; decompressor robustness on garbage is assumed; to_time totality is the Kani harness",
        "undecided": ["ZipArchive::new: capacity bound and directory loop; by_index/by_name error mapping (archive-level unit)", "AesReader::new underflow guard, AesReaderValid::read (unit U11)", "ZipWriter::new_append (unit U7)"],
    },
    "C09": {
        "units": ["U9_crc", "U10_zipcrypto", "U11_aes", "U8_entry_readers", "U7a_writer_leaves"],
        "kani": [],
        "technique": "Verus stream-transformer contracts (state is a function of the bytes consumed) under an I/O model that quantifies over every short-read/short-write schedule",
        "level_text": "Deductive proof that each reader layer advances its state by exactly the count the inner reader returned, whatever that count is: Crc32Reader hashes exactly the returned bytes; ZipCryptoReaderValid decrypts exactly the n bytes read and leaves the keys where n bytes put them (the repaired short-read defect, pinned by a named clause); AesReaderValid advances data_remaining, the HMAC view and the CTR key-stream offset by exactly n, with chunk-independence lemmas for the key stream and for composed reads; after end-of-data further reads return Ok(0) without effect; the raw Take path passes the device bytes through unchanged. On the write side ZipCryptoWriter buffers exactly what it accepts and ZipWriterStats accounts exactly the slice it is given; header writers only use all-or-error primitives.",
        "level_note": "compressors/decompressors assumed chunk-independent; ZipWriter::write accounting the accepted count (not buf.len()) is in unit U7 (not built yet): undecided; vstd's slice iterator specs are trusted for the iter_mut loops",
        "undecided": ["ZipWriter::write: stats and hasher advance by the count the sink accepted (unit U7)"],
    },
    "C15": {
        "units": ["U10_zipcrypto", "U8_entry_readers", "U8b_archive", "U5_header_writers"],
        "kani": [],
        "technique": "Verus contracts on the ZipCrypto stream functions over an abstract byte step + password/validator decisions in the open path",
        "level_text": "Deductive proof, for all passwords, contents and chunkings, that: keys are derived by absorbing the whole password; validate consumes the 12-byte header, accepts exactly when its last decrypted byte equals crc>>24 (PKZIP) or time>>8 (Info-ZIP variant, chosen exactly for data-descriptor entries); reading decrypts exactly the bytes returned; the writer emits the encryption of header (check byte crc>>24) plus buffered data, with a proved inverse lemma dec(enc(p)) == p; an encrypted entry opened without password is refused with the password-required error and a password given for a plain entry is ignored; flag bit 0 is written for encrypted entries in both headers.",
        "level_note": "the byte step (update / stream_byte / CRC table) is an abstract function in Verus; its equality with APPNOTE 6.1 is decided by the Kani group zipcrypto once registered; 'the plaintext does not appear in the file' is a statistical statement no contract can decide; start_entry/finish_file installing the ZipCryptoWriter is unit U7",
        "undecided": ["byte step equals APPNOTE 6.1 (Kani group zipcrypto, pending registration)", "'plaintext does not appear in the file' (statistical; not a contract matter)", "ZipWriter::start_entry/finish_file wiring of the encrypting writer (unit U7)"],
    },
    "C16": {
        "units": ["U11_aes", "U6_central_parser", "U8_entry_readers", "U8b_archive", "U9_crc"],
        "kani": ["types"],
        "technique": "Verus contracts on the AES reader (MAC-then-decrypt order, counters, key slicing) with the primitives uninterpreted",
        "level_text": "Deductive proof that: AesReader::new refuses an entry shorter than salt+verifier+MAC (repaired underflow); validate reads salt and verifier, slices the PBKDF2 output as cipher key | MAC key | verifier and answers wrong-password exactly when the verifiers differ; read feeds exactly the returned ciphertext bytes to the HMAC before decrypting them with the little-endian CTR key stream starting at counter 1, and at the end of the payload reads the 10-byte code and fails unless it equals the first 10 bytes of the HMAC; the AES extra field is parsed per the WinZip layout in any record order (repaired skip defect); AE-2 alone exempts the CRC; no password gives the password-required/refused result.",
        "level_note": "AES, HMAC-SHA1, PBKDF2 are uninterpreted functions: 'any change is detected' holds relative to them; xor() and cipher_from_mode are assumed contracts (iterator zip / Box<dyn>), the former to be covered by Kani; an entry with zero payload bytes is never MAC-checked (stated by the contract; the property exempts empty entries)",
        "undecided": ["xor(): dest[i] ^= src[i] (assumed in Verus; Kani harness pending)"],
    },
    "C10": {
        "units": ["U8_entry_readers"],
        "kani": [],
        "technique": "Verus contracts on read_zipfile_from_stream and the drain loop of Drop for ZipFile against the APPNOTE local-header decode",
        "level_text": "Deductive proof that the streaming reader answers end-of-entries exactly at a central-directory signature, decodes a local header per APPNOTE 4.3.7 (name by the UTF-8 flag, sizes through the same ZIP64 extra-field walk as the seekable reader, DOS time, method), refuses encrypted and data-descriptor entries with an error, bounds the content by the declared compressed size at the offset after name and extra field, wraps it in the CRC-checking stack, and that dropping an entry drains the underlying stream to exactly the end of its compressed data (limit reaches 0) however much was consumed and however the source splits its reads, unless the source ends or faults.",
        "level_note": "agreement with the seekable reader is through the shared spec functions (dec_lfh / dec_cdh agree on the fields the writer duplicates: C02); the visitor loop of ZipStreamReader::visit (unit U12) is not under contract yet; Drop::drop is verified as an inherent method with the representation invariant as precondition (T14)",
        "undecided": ["ZipStreamReader::visit: files then one metadata callback per central record, in order (unit U12)"],
    },
    "C06": {
        "units": ["U3_paths"],
        "kani": [],
        "technique": "Verus contract on the real enclosed_name over an uninterpreted component walk + containment lemma",
        "level_text": "Deductive proof for every entry name and for ANY behaviour of std::path::Components (left uninterpreted): enclosed_name returns Some exactly when the name has no NUL, no prefix/root component and its running depth never goes negative, and then returns the name itself; a checked lemma shows that such a component list joined onto any base directory keeps that base as a prefix at every step of lexical resolution.",
        "level_note": "std::path is assumed only to the extent that Path::new(name).components() yields some component sequence; mangled_name (file_name_sanitized: find/replace/filter/fold over std iterator adapters) is not under contract and is listed as undecided; delegating accessors in read.rs are checked in unit U8",
        "undecided": ["mangled_name / file_name_sanitized (std iterator adapters and string slicing; DESIGN.md section 5 C06)", "ZipFile::enclosed_name / mangled_name delegation (unit U8)"],
    },
    "C18": {
        "units": [],
        "kani": ["types"],
        "technique": "Kani complete (loop-free, full 2^32 domain) harnesses + function contracts on the real DateTime code",
        "level_text": "Complete symbolic proof with Kani/CBMC over the real crate: pack/unpack are mutually inverse for all 2^32 (date,time) words; the checked constructor accepts exactly the documented ranges and accepted values survive pack/unpack up to 2 s; to_time never panics and is Err exactly for impossible dates; to_time/TryFrom are mutually inverse; TryFrom accepts exactly 1980..=2107. The real `time` crate code is executed symbolically, not assumed.",
        "level_note": "CBMC bit-precise semantics of the compiled MIR; try_from harness restricts years to 1900..=2200 (kani::assume, stated in the harness); archive round trip of timestamps rides on the header writer/parser contracts of C01",
    },
}

NOT_APPLICABLE = {
    "C20": "quantifies over thread schedules and a relaxed atomic; Kani has no thread support and Verus reasons about concurrency only through its own permission types, which the real code does not use (DESIGN.md section 10)",
}

# (fn id, clause label or None) -> witness: file under /verif/witness and test name filter
WITNESS = {
}

LEVEL_TEXT = {}
