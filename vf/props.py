"""Which units / harnesses decide which property, and which witness program can
replay a failed obligation on the real code.  Obligation -> property tags live
in the contract files themselves (contracts/fns/*.vc)."""

# property -> {"units": [verus unit names], "kani": [harness group names], "undecided": [clauses not decided]}
PROPS = {
    "C04": {
        "units": ["U9_crc"],
        "kani": [],
        "title": "A read that completes successfully returned uncorrupted data",
    },
}

# (fn id, clause label or None) -> witness: file under /verif/witness and test name filter
WITNESS = {
}

LEVEL_TEXT = {}
