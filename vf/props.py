"""Which units / harnesses decide which property, and which witness program can
replay a failed obligation on the real code.  Obligation -> property tags live
in the contract files themselves (contracts/fns/*.vc)."""

# property -> {"units": [verus unit names], "kani": [harness group names], "undecided": [clauses not decided]}
PROPS = {
    "C02": {
        "units": ["U4_end_records", "U5_header_writers", "U7_writer", "U7a_writer_leaves", "U7b_append_copy", "U13_roundtrip"],
        "kani": ["types"],
        "technique": "Verus contracts on the record/header serialisers against APPNOTE layout spec functions (the independent parser), with inverse lemmas",
        "level_text": "Deductive proof, for every entry metadata value and every sink behaviour (short writes, failure at any call), that each serialiser either reports an error or has written exactly the APPNOTE 4.3.7 / 4.3.12 / 4.3.14-16 / 4.5.3 byte layout of its argument: local header, back-patch of CRC/sizes (in place, nothing else touched), central header with the ZIP64 record carrying exactly the saturated fields, end records; the UTF-8 flag is bit 11 exactly for non-ASCII names; name/extra lengths that do not fit 16 bits are refused before anything is written; version-needed is at least what the entry uses.",
        "level_note": "ZipWriter (unit U7): each started entry's local header sits exactly at the recorded header_start and the data start is the position after it; finalize writes the end records for the directory it just wrote (exact values, ZIP64 records whenever a count/size/offset does not fit, saturated fields only together with them), refuses a comment over 65535 bytes, and leaves behind - in order, back to back, from the recorded directory start, each still intact when it returns - the APPNOTE central record of every entry (loop invariant dir_written: append-only frame); checked lemmas close the loop to the reader: the reader's walk visits exactly those offsets and parses every entry back with the name, CRC, sizes, offset, method, attributes, flags and timestamp (to 2 s) it was written with (lemma_directory_reads_back, unit U13); utf8()/is_ascii are vstd/uninterpreted string specs; `impl Write for &mut [u8]` assumed at one call site (T7x)",
        "undecided": ["stored CRC/sizes match the decoded data: compressors assumed; the writer records crc32(hasher view) and the accepted byte count (proved)"],
    },
    "C08": {
        "units": ["U4_end_records", "U5_header_writers", "U6_central_parser", "U7_writer", "U8b_archive", "U13_roundtrip"],
        "kani": ["types"],
        "technique": "Verus contracts: ZIP64 writer layouts vs APPNOTE spec functions and the reader's extra-field walk proved against an APPNOTE walk spec (all u64 values, no enumeration)",
        "level_text": "Deductive proof for all 64-bit values (sizes and offsets are symbolic, including 0xFFFFFFFF and its neighbours): the central ZIP64 record carries exactly the fields whose 32-bit header field is saturated, in the fixed order; the local one carries both sizes; the reader's extra-field walk substitutes exactly the saturated fields in that order for any well-formed extra field in any record order (loop invariant against a recursive APPNOTE walk); ZIP64 end record and locator are written and parsed per APPNOTE with inverse lemmas; back-patching refuses a compressed size above 4 GiB without large_file.",
        "level_note": "ZipWriter::write refuses to report success once an entry not declared large exceeds 0xFFFFFFFF bytes (and finish then fails: closed writer); finalize emits ZIP64 end record + locator whenever the entry count exceeds 0xFFFF or the directory size/offset exceeds 0xFFFFFFFF, with exact values; get_directory_counts follows the locator and searches forward for the record; all values symbolic (no sparse sinks needed)",
        "undecided": [],
    },
    "C03": {
        "units": ["U4_end_records", "U6_central_parser", "U8_entry_readers", "U8b_archive", "U13_roundtrip"],
        "kani": ["types"],
        "technique": "Verus contracts on the end-record search/parsers against APPNOTE spec functions; Kani complete harness for the attribute-to-mode table",
        "level_text": "Deductive proof over all byte strings and all I/O outcomes: the end-of-central-directory search returns the last signature occurrence whose record fits (so trailing garbage is tolerated), every field equals the APPNOTE 4.3.16/4.3.15/4.3.14 decode of the bytes at that offset, the ZIP64 forward search returns the first record at or after the nominal offset, and an error is returned only on a device fault or when no well-formed record exists in the window. unix_mode() is proved for all 2^32 attribute words x 256 systems with Kani.",
        "level_note": "I/O model of contracts/shims/io.rs. Archive level (unit U8b): ZipArchive::new returns the central records parsed in directory order from the located start (loop invariant against a recursive position function), the name map resolves a duplicated name to its LAST occurrence, by_index out of range / by_name of an absent name are FileNotFound, a classic (non-ZIP64) end record is taken at face value and refused only when the directory cannot lie before it, offset() is the length of prepended data; find_content (U8) locates the data from the LOCAL header's own name/extra lengths and refuses only a missing local signature or a device fault (the central directory stays authoritative for sizes/CRC); unsupported methods fail per entry in make_reader/make_crypto_reader. Vec<u8>::from_cp437 is an assumed contract in Verus decided by the Kani cp437 group (C19); derived PartialEq assumed structural; decoders assumed",
        "undecided": ["entry content equals the producer's original bytes (decoders assumed; the CRC layer is C04)"],
    },
    "C04": {
        "units": ["U9_crc", "U8_entry_readers"],
        "kani": [],
        "technique": "Verus contracts on Crc32Reader and on the reader-stack constructors (real text, extracted each run) + history lemma",
        "level_text": "Deductive proof, for every inner reader, every buffer size (incl. zero-length) and every short-read schedule, that Crc32Reader::read hashes exactly the bytes it returns and can answer Ok(0) on a non-empty buffer only if the accumulated CRC equals the declared one or the entry is AE-2 (a checked lemma lifts this to any history of reads ending at end-of-file); that make_reader wraps EVERY decoding variant in a fresh Crc32Reader holding the entry's declared CRC and the AE-2 flag, that the flag is true exactly for an AES reader with vendor version AE-2, that ZipFile::get_reader / read and the streaming constructor go through that stack, and that only the raw reader bypasses it.",
        "level_note": "crc32fast assumed to compute CRC-32 (uninterpreted crc32); decompressors and the crypto readers are opaque adapters with assumed contracts in this unit (AES reader proved in U11, ZipCrypto byte level by Kani); ZipFile::read is proved to go through the CRC layer of whichever decoding variant is installed (same declared CRC and AE-2 flag, exactly the returned bytes hashed, Ok(0) on a non-empty buffer only with a matching CRC) and by_index/by_name bind the entry to its central record (unit U8b clause entry_is_bound_to_its_central_record is tagged for this property but lives in a unit run under C03/C05)",
        "undecided": [],
    },
    "C05": {
        "units": ["U4_end_records", "U6_central_parser", "U8_entry_readers", "U8b_archive", "U11_aes", "U10_zipcrypto", "U7b_append_copy", "U12_extract"],
        "kani": ["types"],
        "technique": "Verus panic-freedom and termination obligations on the parsers under the arbitrary-bytes I/O model",
        "level_text": "Deductive proof over ARBITRARY byte strings (the device model puts no constraint on content) and all I/O outcomes that the end-record searches, the central-header parser, the extra-field walk, the local-header locator, the crypto/decoder stack constructors, the streaming local-header reader and the drain-on-drop loop never overflow, index out of range, unwrap a None/Err or reach a panic!, and that every loop terminates (decreases clauses); allocations are bounded by 16-bit length fields read from the input. The method-99 and password-unwrap panics fixed in /repo are pinned by named clauses.",
        "level_note": "memory while opening: the capacity handed to Vec/HashMap::with_capacity is at most the input length and the number of parsed entries is at most input length / 46 (ZipArchive::new, unit U8b); the AES reader (underflow guard, read) is unit U11, the ZipCrypto reader U10; decompressor robustness on garbage is assumed; to_time totality is the Kani harness; opening for append (ZipWriter::new_append, unit U7b) and the streaming visitor (unit U12) are proved panic-free under the same arbitrary-bytes model",
        "undecided": ["ZipStreamReader::visit termination (partial correctness only, see C10)", "decompressors fed garbage (assumed)"],
    },
    "C09": {
        "units": ["U9_crc", "U10_zipcrypto", "U11_aes", "U8_entry_readers", "U7a_writer_leaves", "U7_writer"],
        "kani": ["zipcrypto", "aes_ctr"],
        "technique": "Verus stream-transformer contracts (state is a function of the bytes consumed) under an I/O model that quantifies over every short-read/short-write schedule",
        "level_text": "Deductive proof that each reader layer advances its state by exactly the count the inner reader returned, whatever that count is: Crc32Reader hashes exactly the returned bytes; ZipCryptoReaderValid decrypts exactly the n bytes read and leaves the keys where n bytes put them (the repaired short-read defect, pinned by a named clause); AesReaderValid advances data_remaining, the HMAC view and the CTR key-stream offset by exactly n, with chunk-independence lemmas for the key stream and for composed reads; after end-of-data further reads return Ok(0) without effect; the raw Take path passes the device bytes through unchanged. On the write side ZipCryptoWriter buffers exactly what it accepts and ZipWriterStats accounts exactly the slice it is given; header writers only use all-or-error primitives.",
        "level_note": "compressors/decompressors assumed chunk-independent; ZipWriter::write accounts exactly the count the installed writer accepted and hands exactly those bytes to the sink (stored), the encoder (compressed) or the ZipCrypto buffer (named clauses, through the verified dispatch model for `ref_mut`'s trait object); vstd's slice iterator specs are trusted for the iter_mut loops",
        "undecided": [],
    },
    "C15": {
        "units": ["U10_zipcrypto", "U8_entry_readers", "U8b_archive", "U5_header_writers"],
        "kani": ["zipcrypto"],
        "technique": "Verus contracts on the ZipCrypto stream functions over an abstract byte step + password/validator decisions in the open path",
        "level_text": "Deductive proof, for all passwords, contents and chunkings, that: keys are derived by absorbing the whole password; validate consumes the 12-byte header, accepts exactly when its last decrypted byte equals crc>>24 (PKZIP) or time>>8 (Info-ZIP variant, chosen exactly for data-descriptor entries); reading decrypts exactly the bytes returned; the writer emits the encryption of header (check byte crc>>24) plus buffered data, with a proved inverse lemma dec(enc(p)) == p; an encrypted entry opened without password is refused with the password-required error and a password given for a plain entry is ignored; flag bit 0 is written for encrypted entries in both headers.",
        "level_note": "the byte step (update / stream_byte / CRC table) is an abstract function in Verus; its equality with APPNOTE 6.1 for all 2^96 key states x 256 bytes, the CRC table against the bitwise polynomial, the initial keys and decrypt(encrypt(p)) == p are decided by complete (loop-free) Kani harnesses on the real code (group zipcrypto); the check-byte decision of validate over the real byte step for all keys/headers is a complete harness run in the thorough tier only (16 min); bounded Kani stand-ins (4/8-byte buffers, 14-byte writer buffer) accompany the Verus stream contracts and are never counted as proved; 'the plaintext does not appear in the file' is a statistical statement no contract can decide; start_entry/finish_file installing the ZipCryptoWriter is proved in unit U7 (C12/C01 clauses)",
        "undecided": ["'plaintext does not appear in the file' (statistical; not a contract matter)"],
    },
    "C16": {
        "units": ["U11_aes", "U6_central_parser", "U8_entry_readers", "U8b_archive", "U9_crc"],
        "kani": ["types", "aes_ctr"],
        "technique": "Verus contracts on the AES reader (MAC-then-decrypt order, counters, key slicing) with the primitives uninterpreted",
        "level_text": "Deductive proof that: AesReader::new refuses an entry shorter than salt+verifier+MAC (repaired underflow); validate reads salt and verifier, slices the PBKDF2 output as cipher key | MAC key | verifier and answers wrong-password exactly when the verifiers differ; read feeds exactly the returned ciphertext bytes to the HMAC before decrypting them with the little-endian CTR key stream starting at counter 1, and at the end of the payload reads the 10-byte code and fails unless it equals the first 10 bytes of the HMAC; the AES extra field is parsed per the WinZip layout in any record order (repaired skip defect); AE-2 alone exempts the CRC; no password gives the password-required/refused result.",
        "level_note": "AES, HMAC-SHA1, PBKDF2 are uninterpreted functions: 'any change is detected' holds relative to them; cipher_from_mode is an assumed contract (Box<dyn>); xor() is an assumed contract in Verus (iterator zip) decided by a complete Kani harness on the real code for every length the call site can pass (<= 16, a precondition Verus proves there); an entry with zero payload bytes is never MAC-checked (stated by the contract; the property exempts empty entries)",
        "undecided": [],
    },
    "C01": {
        "units": ["U4_end_records", "U5_header_writers", "U6_central_parser", "U7_writer", "U7a_writer_leaves", "U7b_append_copy", "U8_entry_readers", "U8b_archive", "U9_crc", "U13_roundtrip"],
        "kani": ["types"],
        "technique": "Verus contracts on writer and reader against shared APPNOTE spec functions, with proved inverse lemmas for the end records",
        "level_text": "Deductive proof of both directions against the same APPNOTE layout functions: every header/record the writer emits equals enc_X(entry) (local header at the recorded offset, central header, end records) and every reader function returns the APPNOTE decode dec_X of the bytes it is handed, with inverse lemmas dec(enc(x)) == x proved for the three end records; the writer records crc32 of exactly the bytes accepted and their count; the reader stack verifies that CRC; DOS time pack/unpack are mutually inverse (Kani, all 2^32 words); the permission bits land in external_attributes << 16 and come back through unix_mode(); Drop and finish() both run the same finalize from the same state unless the writer is already closed.",
        "level_note": "composition is checked in pieces: dec(enc(x)) == x lemmas for the local header, the central header and the three end records; finalize leaves the central record of every entry in place (dir_written) and the end records describe that directory; lemma_directory_reads_back: the reader's directory walk over such bytes visits the same offsets and returns every entry with the metadata it was written with; stored content reaches the sink byte for byte (ZipWriter::write through the dispatch model) and is read back through the CRC layer. NOT one lemma: that the end record the reader's search finds is the one finalize wrote (names/comments embedding record signatures are excluded by the property itself) and that the located local header is the one start_entry wrote (both sides are proved against the same layout functions); compressors/decompressors are assumed inverse",
        "undecided": ["end-record search finds the record finalize wrote / local header located is the one written: argued from the per-function contracts (paper argument in DESIGN.md section 5 C01)"],
    },
    "C11": {
        "units": ["U4_end_records", "U5_header_writers", "U6_central_parser", "U7_writer", "U7a_writer_leaves", "U7b_append_copy", "U8_entry_readers", "U8b_archive", "U10_zipcrypto", "U11_aes"],
        "kani": [],
        "technique": "Verus panic-freedom and fault-propagation obligations under a device model in which every call may fail any number of times",
        "level_text": "Deductive proof under the fault model (every device call may return Err at any time; a failure leaves position and content unconstrained): no function under contract panics on any combination of failures; the ZipWriter representation invariant holds after EVERY return, Ok or Err, so any later call including finish() is again panic-free (the repaired underflow in finish_file, the closed-writer panic in end_extra_data and the overflow in the header back-patch are pinned by named obligations); readers and header writers return Ok only if no new fault occurred (`no_swallowed_fault` clauses), an error is returned only for a fault or a malformed input; new_append propagates its final seek.",
        "level_note": "one tolerated seek failure remains in get_directory_counts (ZIP64 locator probe): its clause is conditional on a fault-free run, and no failing input could be constructed for it (see DESIGN.md, F10b); after a device fault inside end_extra_data the recorded data start may grow by up to 65535 per failed retry, so panic-freedom there is proved only while fewer than 2^47 such retries happened (zw_room); 'same result as the failure-free run' is decided only through C01's functional contracts",
        "undecided": ["get_directory_counts: a swallowed fault on the ZIP64-locator seek (clause guarded by a fault-free run; no failing input found)", "end_extra_data retried > 2^47 times after a device fault (zw_room precondition)"],
    },
    "C12": {
        "units": ["U7_writer", "U7a_writer_leaves", "U7b_append_copy"],
        "kani": [],
        "technique": "Verus representation invariant (zw_wf) required and re-established by every public writer operation: induction over call sequences of any length",
        "level_text": "Deductive proof by invariant: every public ZipWriter operation requires only the representation invariant and re-establishes it on every exit, so by induction no sequence of calls of any length panics (the unwraps on files.last_mut(), get_plain/unwrap's panic!, the unreachable!() in finish_file, the alignment assert and buffer[11] are all discharged). Misuse is an error by named postconditions: write with no file open, after a directory or symlink, or on a closed writer; end_extra_data without extra data; malformed, truncated, ZIP64 or reserved extra data (validate_extra_data is Ok iff a recursive APPNOTE predicate holds); unsupported method or a level outside the method's range (switch_to, all exits characterised); valid switches from a plain storer succeed. start_entry adds exactly one entry with the metadata of its options and restarts the accounting; finish_file leaves earlier entries and raw-copied metadata untouched.",
        "level_note": "the experimental encryption option is covered by the same invariant only for start_file+write (start_file_with_extra_data / start_file_aligned require `encrypt_with is None`, as the property's quantifier does); `ref_mut` is an assumed contract (unsizing cast; the trait object is modelled as the enum it points into, with a verified dispatch model), write_all / write_u16 on the writer itself are verified transcriptions of the std loops; 'archive contains exactly the entries whose creation succeeded' is proved per operation (entry list effects), not as one abstract-list lemma",
        "undecided": ["abstract entry-list lemma over whole call sequences (per-operation effects on `files` are proved)"],
    },
    "C13": {
        "units": ["U7b_append_copy", "U7_writer", "U8b_archive", "U6_central_parser", "U5_header_writers", "U13_roundtrip"],
        "kani": ["types"],
        "technique": "Verus contracts on new_append (reuses the reader's directory contracts) + frame clauses of the writer operations",
        "level_text": "Deductive proof that new_append returns a well-formed writer whose entry list is the APPNOTE parse of the old central directory (same contracts as the reader), with the existing bytes untouched, positioned exactly on the old directory (the final seek is propagated) and in the state in which the first close does not rewrite the last old entry; every later operation leaves all entries but the open one untouched (frame clauses); the re-emitted central header carries system, version, flags, method, time, CRC, sizes, attributes and offset of the entry record (U5), which is what the reader parsed (U6). The repaired defect (refused start_file corrupting the last old entry) is pinned.",
        "level_note": "per-entry comments and the data-descriptor flag are not re-emitted (not listed by the property); the byte-level frame 'nothing below the old directory start is ever written again' follows from append-only positions and the in-place back-patch contracts, not from a single checked lemma; the map(..).collect::<Result<Vec<_>,_>>() in new_append is a verified transcription (the same loop that is proved for ZipArchive::new)",
        "undecided": ["byte-level frame lemma over whole sequences (append-only positions + back-patch contracts are proved per function)"],
    },
    "C14": {
        "units": ["U7b_append_copy", "U7_writer", "U7a_writer_leaves", "U8_entry_readers", "U8b_archive"],
        "kani": ["types"],
        "technique": "Verus contracts on raw_copy_file_rename and the raw reader path",
        "level_text": "Deductive proof that a raw copy creates exactly one entry carrying the source's name (or the new name), method, CRC-32, sizes, timestamp and permission bits (large_file iff a size exceeds 32 bits), leaves the writer on the stored path with writing_raw set so that the next close does NOT recompute CRC/sizes (finish_file clause), and that the bytes which follow the new local header on the sink are EXACTLY the remaining raw bytes of the source entry - its compressed size, or what is left of a truncated source - unchanged and in order, for every way the source splits its reads and the sink its writes; earlier entries are untouched and the accounting of the next entry restarts; the raw reader (get_raw_reader, real body) is the bounded Take over the device positioned at the data offset computed from the local header, bypassing crypto, decoder and CRC.",
        "level_note": "std::io::copy and Write::write_all are not assumed: their std loops are transcribed (minus the retry on ErrorKind::Interrupted) and VERIFIED against ZipFileReader::read and ZipWriter::write's proved contracts (only the transcription is trusted); the `&mut dyn Write` of ref_mut is modelled as the enum it points into with a verified dispatch model (DESIGN.md 11.2); preconditions on the source entry: freshly opened (no decoding reader installed yet) over a usable device",
        "undecided": [],
    },
    "C17": {
        "units": ["U7_writer", "U7a_writer_leaves", "U5_header_writers", "U6_central_parser", "U8_entry_readers"],
        "kani": [],
        "technique": "Verus contracts on start_file_aligned / extra-data calls with a proved arithmetic lemma for the padding formula",
        "level_text": "Deductive proof for every alignment 0..65535 and every preceding state that a successful start_file_aligned leaves the entry's data start at a multiple of the alignment (lemma (x + (a - x % a) % a) % a == 0; the in-code assert is an obligation), that extra data written through the writer is collected verbatim, validated (Ok iff well-formed, unreserved, non-ZIP64, within 65535 bytes), appended after the local header with the local extra-length field patched to (20 if large) + length - refused if that does not fit 16 bits -, that the central part stays in the entry and is emitted in the central header, and that the reader reports the data start computed from the local header's own name/extra lengths.",
        "level_note": "write_all / write_u16 on the writer itself are verified transcriptions of the std loops over ZipWriter::write's proved contract (only the two little-endian bytes of write_u16 are assumed); AtomicU64 is modelled as a plain cell on the writer side",
        "undecided": [],
    },
    "C10": {
        "units": ["U8_entry_readers", "U12_extract", "U13_roundtrip"],
        "kani": [],
        "technique": "Verus contracts on read_zipfile_from_stream, the visitor loop and the drain loop of Drop for ZipFile against the APPNOTE local-header decode",
        "level_text": "Deductive proof that the streaming reader answers end-of-entries exactly at a central-directory signature, decodes a local header per APPNOTE 4.3.7 (name by the UTF-8 flag, sizes through the same ZIP64 extra-field walk as the seekable reader, DOS time, method), refuses encrypted and data-descriptor entries with an error, bounds the content by the declared compressed size at the offset after name and extra field, wraps it in the CRC-checking stack, and that dropping an entry drains the underlying stream to exactly the end of its compressed data (limit reaches 0) however much was consumed and however the source splits its reads, unless the source ends or faults.",
        "level_note": "agreement with the seekable reader is through the shared spec functions (dec_lfh / dec_cdh agree on the fields the writer duplicates: C02); ZipStreamReader::visit (unit U12): for a visitor that logs its callbacks, the log of one visit is files first, then at least one metadata record (the repaired never-invoked-callback defect is pinned by this clause), and the first central record is parsed without re-reading the signature the entry loop consumed; partial correctness only for the two visit loops (they end when the stream does; no decreases clause); Drop::drop is verified as an inherent method with the representation invariant as precondition (T14)",
        "undecided": ["the number of metadata callbacks equals the number of entries, in the same order (needs a parse-level spec of the whole stream)", "termination of the two loops of visit (bounded by the stream length; the implicit drop of each entry between iterations is outside the loop body Verus sees)"],
    },
    "C06": {
        "units": ["U3_paths", "U12_extract"],
        "kani": [],
        "technique": "Verus contracts on the real enclosed_name and file_name_sanitized over an uninterpreted component walk (closures specified through call_ensures, fold by induction) + containment lemmas",
        "level_text": "Deductive proof for every entry name and for ANY behaviour of std::path::Components (left uninterpreted): enclosed_name returns Some exactly when the name has no NUL, no prefix/root component and its running depth never goes negative, and then returns the name itself; file_name_sanitized (mangled_name) returns a path built, by pushes only, from exactly the ordinary components - in order - of the component walk of the name cut at its first NUL with backslashes read as separators (induction over the fold relation of the real filter/fold closures); checked lemmas show that either result joined onto any base directory keeps that base as a prefix at every step of lexical resolution; the four public accessors on ZipFile / ZipStreamFileMetadata are proved to delegate.",
        "level_note": "std::path is assumed only to the extent that Path::new(name).components() yields some component sequence and PathBuf::new/push build a path from ordinary components; the std string operations of the sanitiser (find, slicing at the found offset, replace of one character, to_string) and Iterator::filter/fold are assumed contracts (shims/str_ops.rs, shims/path.rs), the two closures are verified as written with added type/ensures annotations (T12); host semantics: unix (MAIN_SEPARATOR = '/')",
        "undecided": [],
    },
    "C07": {
        "units": ["U3_paths", "U12_extract"],
        "kani": [],
        "technique": "Verus contracts: every filesystem call of both extract() bodies must discharge a confinement precondition stated on the std::fs shims",
        "level_text": "Deductive proof for every archive and every entry name (the component walk of std::path is left uninterpreted): in ZipArchive::extract and in the visitor of ZipStreamReader::extract, every call of fs::create_dir_all, fs::File::create and fs::set_permissions is made on a path that is the target directory joined with a name accepted by enclosed_name (or the lexical parent of such a path), which the containment lemma of unit U3 shows stays inside the target at every step of resolution; an entry whose name is unsafe makes extract return an error before any filesystem call for that entry; directories are decided by the trailing slash and the mode is applied after the content is written, with exactly the recorded unix_mode().",
        "level_note": "std::fs is a contract-only shim (shims/fs.rs): the confinement is a PRECONDITION of those shims, so a call on an unvalidated path fails verification; symlink resolution by the operating system is outside the lexical model (the crate creates no symlinks while extracting, a pre-existing symlink inside the target is followed); io::copy is an assumed contract; the 'reproduces the tree byte-for-byte' half depends on the filesystem's behaviour and on the decoders and is not decided",
        "undecided": ["for safe and consistent names the directory afterwards contains exactly the archive's tree with identical contents and modes (filesystem semantics + decoders: not expressible as a contract on this code)", "pre-existing symlinks inside the target directory"],
    },
    "C19": {
        "units": ["U5_header_writers", "U6_central_parser", "U8_entry_readers", "U7_writer", "U7b_append_copy", "U13_roundtrip"],
        "kani": ["cp437"],
        "technique": "Kani complete harness for the CP437 table (all 256 bytes, against the Unicode table shipped in CPython) + Verus contracts on the flag-driven decoding in both readers and on the writer's name bytes/flag, closed by a checked round-trip lemma",
        "level_text": "Complete symbolic proof (Kani, all 256 byte values) that to_char is the Unicode consortium CP437 mapping as shipped in CPython; deductive proof (Verus, all byte strings, all flag words) that both the central-directory parser and the streaming local-header reader decode name and comment with UTF-8-lossy exactly when general-purpose bit 11 is set and with CP437 otherwise, never fail because of the text's content, and keep the stored bytes unchanged in file_name_raw (name_raw(), name(), comment() are proved to be plain projections); that the writer stores exactly utf8(name) in local and central header and sets bit 11 exactly for non-ASCII names; that every start_*/add_*/raw_copy call names the new entry with exactly the string it was given (add_directory: plus the trailing slash) and no later operation renames it; and a checked lemma that a name so written decodes back to the same string.",
        "level_note": "Vec<u8>::from_cp437 / <&[u8]>::from_cp437 (std iterator adapters) are an assumed contract in Verus (`cp437(bytes)`, per-byte map) and a BOUNDED Kani stand-in on the real std code: all byte strings of length <= 2 (quick) / <= 3 (thorough), never counted as proved; String::from_utf8_lossy is std (uninterpreted utf8_lossy, axiom utf8_lossy(utf8(s)) == s); utf8 of an ASCII string = its bytes and CP437 identity below 0x80 are axioms (the latter decided for to_char by the Kani table harness); the archive comment is returned as raw bytes (ZipArchive::comment, proved a projection in unit U8b)",
        "undecided": ["from_cp437 on byte strings longer than the Kani bound (argued: a per-byte map; bounded stand-in only)", "String::from_utf8_lossy replaces invalid sequences and never errors (std; uninterpreted)"],
    },
    "C18": {
        "units": ["U13_roundtrip"],
        "kani": ["types"],
        "technique": "Kani complete (loop-free, full 2^32 domain) harnesses + function contracts on the real DateTime code",
        "level_text": "Complete symbolic proof with Kani/CBMC over the real crate: pack/unpack are mutually inverse for all 2^32 (date,time) words; the checked constructor accepts exactly the documented ranges and accepted values survive pack/unpack up to 2 s; to_time never panics and is Err exactly for impossible dates; to_time/TryFrom are mutually inverse; TryFrom accepts exactly 1980..=2107. The real `time` crate code is executed symbolically, not assumed.",
        "level_note": "CBMC bit-precise semantics of the compiled MIR; try_from harness restricts years to 1900..=2200 (kani::assume, stated in the harness); archive round trip of timestamps rides on the header writer/parser contracts of C01",
    },
}

NOT_APPLICABLE = {
    "C20": "quantifies over thread schedules and a relaxed atomic; Kani has no thread support and Verus reasons about concurrency only through its own permission types, which the real code does not use (DESIGN.md section 10)",
}

# (fn id, clause label or None) -> witness: file under /verif/witness and test name filter
WITNESS = {
}

LEVEL_TEXT = {}
