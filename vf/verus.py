"""Run Verus on an assembled unit and map its diagnostics back to obligations."""
import json, os, re, subprocess, time, hashlib, tempfile, shutil
from . import assemble
from .rsscan import ScanError

WORK = os.environ.get("VERIF_WORK", "/var/tmp/zipverif-work")
CREATED = []   # work directories made by this process (removed by the driver at the end; never the whole WORK root:
               # other checks may be running concurrently)

VERIF_KINDS = [
    ("postcondition not satisfied", "postcondition"),
    ("unable to prove post-condition of closure", "postcondition"),
    ("unable to prove assertion", "assertion"),
    ("precondition not satisfied", "precondition"),
    ("assertion failed", "assertion"),
    ("invariant not satisfied", "invariant"),
    ("possible arithmetic underflow/overflow", "overflow"),
    ("possible division by zero", "div0"),
    ("decreases not satisfied", "decreases"),
    ("could not prove termination", "decreases"),
    ("possible bit shift underflow/overflow", "overflow"),
    ("recommendation not met", "recommends"),
    ("unreachable", "unreachable"),
    ("loop must have a decreases clause", "compile"),
]
UNDECIDED_PAT = ["rlimit", "Resource limit", "timed out", "canceled", "unsupported", "not supported", "does not yet support",
                 "panicked", "internal error"]

class UnitResult:
    def __init__(self):
        self.unit = None
        self.text = None
        self.path = None
        self.ok = False
        self.verified = 0
        self.errors = 0
        self.failures = []     # verification failures mapped to obligations
        self.undecided = []    # compile errors, rlimit, unsupported
        self.fn_stats = {}     # verus function name -> {success, time_us, rlimit}
        self.wall = 0.0
        self.smt_ms = 0
        self.cmd = ""
        self.raw_stderr = ""
        self.version = ""

def classify(msg):
    for pat, kind in VERIF_KINDS:
        if pat in msg:
            return kind
    return None

def fn_at(unit, line):
    for f in unit.fns:
        a, b = f["out_lines"]
        if a <= line <= b:
            return f
    return None

def run_unit(name, twin=False, seed=0, rlimit=None, extra_args=()):
    os.makedirs(WORK, exist_ok=True)
    res = UnitResult()
    if twin is True:
        twin = "entry"
    unit, text = assemble.assemble(name, twin=twin)
    res.unit, res.text = unit, text
    tag = hashlib.sha256(text.encode()).hexdigest()[:10]
    d = tempfile.mkdtemp(prefix="%s%s-" % (name, "-twin" if twin else ""), dir=WORK)
    CREATED.append(d)
    path = os.path.join(d, name.lower().replace("-", "_") + ("_twin" if twin else "") + ".rs")
    open(path, "w").write(text)
    res.path = path
    cmd = ["verus", path, "--output-json", "--time", "--error-format=json", "--multiple-errors", "8"]
    if seed:
        cmd += ["--smt-option", "smt.random_seed=%d" % (seed % 1000000), "--smt-option", "sat.random_seed=%d" % (seed % 1000000)]
    if rlimit:
        cmd += ["--rlimit", str(rlimit)]
    cmd += list(extra_args)
    res.cmd = " ".join(cmd)
    t0 = time.time()
    p = subprocess.run(cmd, capture_output=True, text=True, cwd=d)
    res.wall = time.time() - t0
    res.raw_stderr = p.stderr
    try:
        j = json.loads(p.stdout)
    except Exception:
        j = None
    if j:
        vr = j.get("verification-results", {})
        res.verified = vr.get("verified", 0)
        res.errors = vr.get("errors", 0)
        res.ok = bool(vr.get("success"))
        res.version = j.get("verus", {}).get("version", "")
        try:
            tm = j["times-ms"]
            res.smt_ms = tm.get("smt", {}).get("total", 0) if isinstance(tm.get("smt"), dict) else 0
            for m in tm["smt"]["smt-run-module-times"]:
                for fb in m.get("function-breakdown", []):
                    res.fn_stats[fb["function"]] = {"success": fb.get("success"), "time_us": fb.get("time-micros"), "rlimit": fb.get("rlimit")}
        except Exception:
            pass
    # diagnostics
    for ln in p.stderr.split("\n"):
        ln = ln.strip()
        if not ln.startswith("{"):
            continue
        try:
            dgn = json.loads(ln)
        except Exception:
            continue
        if dgn.get("level") not in ("error",):
            continue
        msg = dgn.get("message", "")
        if msg.startswith("aborting due to"):
            continue
        spans = dgn.get("spans", [])
        kind = classify(msg)
        prim = [s for s in spans if s.get("is_primary")] or spans
        # locate function and clause
        fn = None
        clause = None
        clause_prio = 9
        locus_src = None
        for s in spans:
            l = s.get("line_start", 0)
            f = fn_at(unit, l)
            if f and fn is None:
                fn = f
            meta = unit.out.meta[l - 1] if 0 < l <= len(unit.out.meta) else None
            if meta and meta[0] == "clause":
                prio = {"ensures": 0, "requires": 0, "invariant": 1, "decreases": 2, "ghost": 3}.get(meta[2], 4)
                if clause is None or prio < clause_prio:
                    clause, clause_prio = meta, prio
        for s in prim + spans:
            l = s.get("line_start", 0)
            meta = unit.out.meta[l - 1] if 0 < l <= len(unit.out.meta) else None
            if meta and meta[0] == "src":
                txt = (s.get("text") or [{}])[0].get("text", "").strip()
                locus_src = {"file": meta[1], "line": meta[2], "text": txt}
                break
        lemma = None
        if fn is None:
            for sp in prim + spans:
                l = sp.get("line_start", 0)
                for lm in getattr(unit, "lemmas", ()):
                    if lm["first"] <= l <= lm["last"]:
                        lemma = lm["name"]; break
                if lemma: break
        rec = {"unit": name, "message": msg, "kind": kind, "fn": fn["id"] if fn else None, "lemma": lemma,
               "clause": {"fn": clause[1], "kind": clause[2], "label": clause[3]} if clause else None,
               "src": locus_src, "rendered": dgn.get("rendered", "")}
        is_undecided = kind is None or kind == "compile" or any(u.lower() in msg.lower() for u in UNDECIDED_PAT)
        if is_undecided:
            res.undecided.append(rec)
        else:
            res.failures.append(rec)
    if j is None and not res.undecided:
        res.undecided.append({"unit": name, "message": "verus produced no JSON result", "kind": None, "fn": None, "clause": None,
                              "src": None, "rendered": p.stderr[-3000:]})
    return res
