"""Unit assembly: template + shims + functions cut verbatim out of /repo, with
contracts spliced in (T3, T4, T5, T6, T7, T9, T10).  Produces the single Verus
file, a line map back to (source file, line) or (function, clause), the table
of functions under contract and the log of every transformation applied.
"""
import hashlib, os, re
from . import rsscan
from .rsscan import ScanError, Tok

REPO = os.environ.get("VERIF_REPO", "/repo")
CONTRACTS = os.path.join(os.path.dirname(os.path.dirname(os.path.abspath(__file__))), "contracts")

# T7: fixed table of call rewrites.  name -> (regex, replacement, assumed-spec note)
T7 = [
    ("u16max", r"::std::u16::MAX", "u16::MAX", "path form only; same constant"),
    ("contains_nul", r"self\.file_name\.contains\('\\0'\)", "shim_str_contains_nul(&self.file_name)", "assumed: result == (exists i. s[i] == NUL)"),
    ("format", r"format!\((?:[^()]|\([^()]*\))*\)", "shim_format_opaque()", "assumed: returns some String"),
    ("stderr", r"let _ = write!\(io::stderr\(\), (?:[^()]|\([^()]*\))*\);", "shim_stderr_note();", "assumed: no effect on verified state"),
    ("any_eq", r"EXTRA_FIELD_MAPPING\.iter\(\)\.any\(\|&(\w+)\| \1 == kind\)", "shim_slice_contains_u16(&EXTRA_FIELD_MAPPING, kind)", "assumed: result == (exists i. a[i] == k)"),
]

# T8: type-position rewrites forced by the shims (Verus cannot encode `dyn Trait` with a supertrait)
T8 = [
    ("dyn_read_a", r"&'a mut dyn (?:io::|std::io::)?Read\b", "DynRead<'a>", "trait object replaced by the opaque shim DynRead (same ghost state; dispatch is irrelevant to the contracts)"),
    ("dyn_read", r"&mut dyn (?:io::|std::io::)?Read\b", "DynRead<'_>", "same"),
    ("dyn_write", r"&mut dyn (?:io::|std::io::)?Write\b", "&mut GenericZipWriter<W>", "the trait object handed out by GenericZipWriter::ref_mut (its only producer) is represented by the enum it points into; dynamic dispatch = the variant's own write/flush (common/writer_types.rs, `impl Write for GenericZipWriter`)"),
    ("flate2_read", r"flate2::read::DeflateDecoder", "DeflateDecoder", "crate path resolves to the decoder shim"),
    ("std_io", r"(?<![\w:])(?:::)?std::io::(Take|Read|Write|Seek|Result|Error|ErrorKind)\b", r"io::\1", "absolute std::io path resolves to the io shim module"),
    ("std_path", r"(?<![\w:])::std::path::(PathBuf|Path|Component|MAIN_SEPARATOR)\b", r"path::\1", "absolute std::path path resolves to the path shim module"),
]
def apply_t8(text, where, log):
    for name, rx, rep, note in T8:
        cnt = len(re.findall(rx, text))
        if cnt:
            text = re.sub(rx, rep, text)
            log.append("T8 %s: rule `%s` applied %d time(s) [%s]" % (where, name, cnt, note))
    return text

_file_cache = {}
def file_tokens(rel):
    p = os.path.join(REPO, rel)
    if p not in _file_cache:
        if not os.path.exists(p):
            raise ScanError("lost anchor: file %s" % rel)
        _file_cache[p] = rsscan.tokenize(open(p).read())
    return _file_cache[p]

class Clause:
    def __init__(self, kind, label, props, text):
        self.kind, self.label, self.props, self.text = kind, label, props, text
        self.lines = None  # (first, last) output lines

class FnSpec:
    """parsed .vc contract block"""
    def __init__(self, ident):
        self.ident = ident
        self.file = None
        self.path = None
        self.props = []
        self.ret = None
        self.mutself = False
        self.requires = []
        self.ensures = []
        self.decreases = None
        self.loops = {}      # k -> {"forloop": bool, "text": str}
        self.ghosts = []     # (where, regex, nth, text)
        self.attrs = []
        self.rewrites = []   # extra per-fn rewrites: (regex, repl) -- logged as T7x
        self.sigrewrites = []
        self.nobody = False
        self.opens = []
        self.vis = None
        self.sigsuffix = None
        self.hoisted = False

_clause_start = re.compile(r"^(\s*)(\[[^\]]*\]\s*)?(.*)$")

def parse_vc(ident, text):
    fs = FnSpec(ident)
    sec = None
    cur = None
    base_indent = None
    def flush():
        nonlocal cur
        cur = None
    lines = text.split("\n")
    i = 0
    while i < len(lines):
        ln = lines[i]
        i += 1
        if not ln.strip() or ln.startswith("#"):
            continue
        if not ln[0].isspace():
            flush()
            if ln.startswith("ghost ") and ln.rstrip().endswith(":"):
                key, val = ln.rstrip()[:-1], ""
            else:
                key, _, val = ln.partition(":")
            key, val = key.strip(), val.strip()
            base_indent = None
            if key == "fn":
                parts = [p.strip() for p in val.split("|")]
                fs.file, fs.path = parts[0], parts[1:]
                sec = None
            elif key == "props":
                fs.props = val.split(); sec = None
            elif key == "ret":
                fs.ret = val; sec = None
            elif key == "mutself":
                fs.mutself = val in ("yes", "true"); sec = None
            elif key == "attr":
                if "external_body" in val:
                    fs.nobody = True
                else:
                    fs.attrs.append(val)
                sec = None
            elif key == "vis":
                fs.vis = val; sec = None
            elif key == "sigsuffix":
                fs.sigsuffix = val; sec = None
            elif key == "hoisted_items":
                fs.hoisted = val in ("yes", "true"); sec = None
            elif key == "sigrewrite":
                # sigrewrite: /regex/ => replacement   (applied to the text of the signature; T8-style type-position rewrite
                # that is specific to one function, logged as T8x; zero matches = lost anchor)
                m = re.match(r"/(.*)/\s*=>\s*(.*)$", val)
                if not m:
                    raise ScanError("bad sigrewrite in %s" % ident)
                fs.sigrewrites.append((m.group(1), m.group(2))); sec = None
            elif key in ("rewrite", "rewrite!"):
                # rewrite: /regex/ => replacement     (`rewrite!`: the construct must be present - a ghost-only annotation
                # (T12 closure contract) whose loss would leave the proof without a needed fact: 0 matches = lost anchor)
                # `rewrite!: /rx/ => repl  when /guard/`: mandatory only while the function text still matches guard
                # (e.g. "contains a closure at all"); with the guard gone the construct is gone and Verus decides.
                guard = None
                mg = re.match(r"(.*\S)\s+when\s+/(.*)/\s*$", val)
                if mg and key.endswith("!"):
                    val, guard = mg.group(1), mg.group(2)
                m = re.match(r"/(.*)/\s*=>\s*(.*)$", val)
                if not m:
                    raise ScanError("bad rewrite in %s" % ident)
                fs.rewrites.append((m.group(1), m.group(2), key.endswith("!"), guard)); sec = None
            elif key in ("requires", "ensures"):
                sec = key
            elif key == "decreases":
                fs.decreases = val; sec = "decreases"
            elif key.startswith("loop"):
                m = re.match(r"loop\s+(\d+)(\s+forloop)?(?:\s+\[([^\]]*)\])?$", key)
                if not m:
                    raise ScanError("bad loop header in %s: %s" % (ident, key))
                k = int(m.group(1))
                fs.loops[k] = {"forloop": bool(m.group(2)), "text": "", "props": (m.group(3) or "").split() or None}
                sec = ("loop", k)
            elif key.startswith("ghost"):
                m = re.match(r"ghost\s+(before|after|first|last)(?:\s+/(.*)/)?(?:\s+#(\d+))?(?:\s+\[([^\]]*)\])?$", key)
                if not m:
                    raise ScanError("bad ghost header in %s: %s" % (ident, key))
                fs.ghosts.append([m.group(1), m.group(2), int(m.group(3)) if m.group(3) else None, ""])
                # optional `[label P1 P2]`: a ghost assertion that is itself an obligation derived from a property
                fs.ghost_labels = getattr(fs, "ghost_labels", {})
                if m.group(4):
                    ws = m.group(4).split()
                    fs.ghost_labels[len(fs.ghosts) - 1] = (ws[0], ws[1:] or None)
                sec = "ghost"
            else:
                raise ScanError("unknown key %r in %s" % (key, ident))
            continue
        # indented line
        if sec in ("requires", "ensures"):
            ind = len(ln) - len(ln.lstrip())
            if base_indent is None:
                base_indent = ind
            if ind <= base_indent and not ln.lstrip().startswith(("}", ")", "]")):
                m = re.match(r"\s*(?:\[([^\]]*)\]\s*)?(.*)$", ln)
                lab = m.group(1)
                label, props = None, None
                if lab is not None:
                    ws = lab.split()
                    label = ws[0] if ws else None
                    props = [w for w in ws[1:]] or None
                cur = Clause(sec, label, props, m.group(2))
                (fs.requires if sec == "requires" else fs.ensures).append(cur)
            else:
                cur.text += "\n" + ln
        elif sec == "decreases":
            fs.decreases += "\n" + ln
        elif isinstance(sec, tuple) and sec[0] == "loop":
            fs.loops[sec[1]]["text"] += ln + "\n"
        elif sec == "ghost":
            fs.ghosts[-1][3] += ln + "\n"
        else:
            raise ScanError("stray indented line in %s: %r" % (ident, ln))
    if fs.file is None:
        raise ScanError("%s: no fn: line" % ident)
    return fs

# ---------------------------------------------------------------------------

class Out:
    """output builder with a line map"""
    def __init__(self):
        self.lines = []     # text of each output line (without \n)
        self.meta = []      # origin of each output line
        self._cur = ""
        self._curmeta = None
    def write(self, s, meta):
        for ch_i, part in enumerate(s.split("\n")):
            if ch_i > 0:
                self.lines.append(self._cur)
                self.meta.append(self._curmeta)
                self._cur = ""
                self._curmeta = None
                if meta and meta[0] == "src":
                    meta = ("src", meta[1], meta[2] + 1)
            if part:
                if self._curmeta is None or (meta and meta[0] == "clause"):
                    self._curmeta = meta
                self._cur += part
        return meta
    def nl(self):
        if self._cur:
            self.write("\n", None)
    def lineno(self):
        return len(self.lines) + 1
    def finish(self):
        if self._cur:
            self.lines.append(self._cur); self.meta.append(self._curmeta)
        return "\n".join(self.lines) + "\n"

class Unit:
    lemmas = ()
    def __init__(self, name):
        self.name = name
        self.out = Out()
        self.fns = []       # dict per function under contract
        self.items = []     # verbatim items
        self.log = []
        self.trusted = []   # assumption scan filled later
        self.absent = []    # optional helper functions that are no longer in the source (T17)

def _sigidx(toks):
    return [i for i, t in enumerate(toks) if t.k not in ("ws", "lc", "bc", "doc")]

def widen_vis(toks, log, where):
    """T9: pub(crate)/pub(super)/pub(in ..) -> pub; struct fields -> pub"""
    out = []
    i = 0
    n = len(toks)
    while i < n:
        t = toks[i]
        if t.k == "id" and t.s == "pub":
            out.append(t)
            j = i + 1
            while j < n and toks[j].k == "ws":
                j += 1
            if j < n and toks[j].s == "(":
                e = rsscan.match_close(toks, j)
                inner = rsscan.norm(rsscan.text(toks[j+1:e]))
                if inner in ("crate", "super", "self") or inner.startswith("in"):
                    log.append("T9 %s line %d: pub(%s) -> pub" % (where, t.line, inner))
                    i = e + 1
                    continue
            i += 1
            continue
        out.append(t)
        i += 1
    return out

def pub_fields(toks, log, where):
    """T9 for a struct item: make every named/tuple field pub"""
    sg = _sigidx(toks)
    # find `struct` keyword
    ks = [i for i in sg if toks[i].k == "id" and toks[i].s == "struct"]
    if not ks:
        return toks
    k = ks[0]
    # the field list: first ( or { at depth 0 after the name (skip generics)
    depth_angle = 0
    j = None
    for i in sg:
        if i <= k:
            continue
        s = toks[i].s
        if s == "<":
            depth_angle += 1
        elif s == ">":
            depth_angle -= 1
        elif s == ">>":
            depth_angle -= 2
        elif s in ("{", "(") and depth_angle == 0:
            j = i; break
        elif s == ";" and depth_angle == 0:
            return toks
    if j is None:
        return toks
    e = rsscan.match_close(toks, j)
    ins = set()
    depth = 0
    expect = True
    i = j + 1
    angle = 0
    while i < e:
        t = toks[i]
        if t.k in ("ws", "lc", "bc", "doc"):
            i += 1; continue
        if expect and depth == 0:
            a = rsscan._attr_at(toks, i) if t.s == "#" else None
            if a:
                i = a[0]; continue
            if not (t.k == "id" and t.s == "pub"):
                ins.add(i)
            expect = False
        if t.k == "p":
            if t.s in rsscan.OPEN:
                depth += 1
            elif t.s in rsscan.CLOSE:
                depth -= 1
            elif t.s == "<":
                angle += 1
            elif t.s == ">":
                angle -= 1
            elif t.s == ">>":
                angle -= 2
            elif t.s == "," and depth == 0 and angle <= 0:
                expect = True
        i += 1
    if ins:
        log.append("T9 %s: %d field(s) made pub" % (where, len(ins)))
    out = []
    for i, t in enumerate(toks):
        if i in ins:
            out.append(Tok("id", "pub ", t.pos, t.line))
        out.append(t)
    return out

def _emit_tokens_t8(unit, toks, file, where):
    """emit tokens line by line so T8 regexes (which span several tokens) can be applied per source line"""
    cur, cur_line = "", None
    def flush():
        nonlocal cur, cur_line
        if cur:
            unit.out.write(apply_t8(cur, where, unit.log), ("src", file, cur_line))
        cur, cur_line = "", None
    for t in toks:
        parts = t.s.split("\n")
        for n, part in enumerate(parts):
            if n > 0:
                flush()
                unit.out.write("\n", None)
            if part:
                if cur_line is None:
                    cur_line = t.line + n
                cur += part
    flush()

def emit_tokens(out, toks, file):
    for t in toks:
        out.write(t.s, ("src", file, t.line))

def add_item(unit, file, path, opts=()):
    ft = file_tokens(file)
    it = rsscan.find_item(ft, path)
    where = "%s::%s" % (file, "/".join(path))
    orig = rsscan.text(it.toks)
    toks = rsscan.resolve_cfg_and_attrs(it.toks, unit.log, where, keep_debug=("keep_debug" in opts))
    toks = widen_vis(toks, unit.log, where)
    if it.kind == "struct" and "nopubfields" not in opts:
        toks = pub_fields(toks, unit.log, where)
    if "strip_derive" in opts:
        toks = strip_attr(toks, "derive", unit.log, where)
    # make the item itself pub when it has no visibility (T9)
    sg = _sigidx(toks)
    if sg and it.kind in ("struct", "enum", "const", "static", "fn", "type") and "nopub" not in opts:
        first = toks[sg[0]]
        # skip attributes
        i = 0
        while i < len(sg):
            if toks[sg[i]].k == "attr":
                i += 1
                continue
            a = rsscan._attr_at(toks, sg[i]) if toks[sg[i]].s == "#" else None
            if a is None:
                break
            while i < len(sg) and sg[i] < a[0]:
                i += 1
        if i < len(sg) and not (toks[sg[i]].k == "id" and toks[sg[i]].s == "pub"):
            toks = toks[:sg[i]] + [Tok("id", "pub ", toks[sg[i]].pos, toks[sg[i]].line)] + toks[sg[i]:]
            unit.log.append("T9 %s: item made pub" % where)
    unit.out.nl()
    first_line = unit.out.lineno()
    _emit_tokens_t8(unit, toks, file, where)
    unit.out.nl()
    unit.items.append({"file": file, "path": path, "sha256": hashlib.sha256(orig.encode()).hexdigest(),
                       "src_lines": [it.toks[0].line, it.toks[-1].line], "out_lines": [first_line, unit.out.lineno() - 1]})

def strip_attr(toks, name, log, where):
    out = []
    i = 0
    while i < len(toks):
        a = rsscan._attr_at(toks, i) if toks[i].k == "p" and toks[i].s == "#" else None
        if a and a[1] == name:
            log.append("T2 %s line %d: #[%s..] removed" % (where, toks[i].line, name))
            nl = sum(t.s.count("\n") for t in toks[i:a[0]])
            if nl:
                out.append(Tok("ws", "\n" * nl, toks[i].pos, toks[i].line))
            i = a[0]
        else:
            out.append(toks[i]); i += 1
    return out

def check_impl(unit, file, header):
    ft = file_tokens(file)
    want = rsscan.norm(header)
    for it in rsscan.split_items(ft):
        if it.kind == "impl" and it.name == want:
            return
        if it.kind == "mod":
            b = it.body_tokens()
            if b:
                for it2 in rsscan.split_items(b):
                    if it2.kind == "impl" and it2.name == want:
                        return
    raise ScanError("lost anchor: impl header %r in %s" % (header, file))

LOOP_KW = ("while", "loop", "for")

def find_loops(toks):
    """indices of loop keywords in token order (skips `for` in `impl..for` / `for<`)"""
    res = []
    sg = _sigidx(toks)
    for n, i in enumerate(sg):
        t = toks[i]
        if t.k == "id" and t.s in LOOP_KW:
            if t.s == "for":
                nxt = toks[sg[n+1]].s if n + 1 < len(sg) else ""
                if nxt == "<":
                    continue
            res.append(i)
    return res

def loop_body_open(toks, kw_i):
    depth = 0
    for j in range(kw_i + 1, len(toks)):
        t = toks[j]
        if t.k != "p":
            continue
        if t.s == "{" and depth == 0:
            return j
        if t.s in rsscan.OPEN:
            depth += 1
        elif t.s in rsscan.CLOSE:
            depth -= 1
    raise ScanError("loop without body")

def add_fn(unit, fs):
    ft = file_tokens(fs.file)
    it = rsscan.find_item(ft, fs.path)
    if it.kind != "fn":
        raise ScanError("%s is not a fn" % fs.ident)
    where = "%s::%s" % (fs.file, "/".join(fs.path))
    orig = rsscan.text(it.toks)
    toks = rsscan.resolve_cfg_and_attrs(it.toks, unit.log, where)
    toks = widen_vis(toks, unit.log, where)
    # split signature / body
    depth = 0
    body_open = None
    for i, t in enumerate(toks):
        if t.k == "p":
            if t.s == "{" and depth == 0:
                body_open = i; break
            if t.s in rsscan.OPEN:
                depth += 1
            elif t.s in rsscan.CLOSE:
                depth -= 1
            elif t.s == ";" and depth == 0:
                break
    if body_open is None:
        raise ScanError("%s has no body" % fs.ident)
    body_close = rsscan.match_close(toks, body_open)
    sigt = toks[:body_open]
    body = toks[body_open + 1:body_close]
    tail = toks[body_close + 1:]
    if fs.hoisted:
        # T15: items nested in the body (verified separately at module level) are removed from the body text
        nested = [x for x in rsscan.split_items(body) if x.kind in ("struct", "enum", "impl", "fn", "trait")]
        drop = set()
        for x in nested:
            for t in x.toks:
                drop.add(id(t))
        if not nested:
            raise ScanError("%s: hoisted_items given but the body has no nested items" % fs.ident)
        body = [(Tok("ws", "\n" * t.s.count("\n"), t.pos, t.line) if id(t) in drop else t) for t in body]
        unit.log.append("T15 %s: %d nested item(s) removed from the body (verified at module level): %s" % (where, len(nested), ", ".join(x.kind + " " + x.name[:40] for x in nested)))
    # --- signature: T3 named return, T10 mut self
    sg = _sigidx(sigt)
    # leading whitespace/comments trimmed
    # find `->` at paren depth 0
    depth = 0
    arrow = None
    where_i = None
    for i in sg:
        t = sigt[i]
        if t.k == "p" and t.s in rsscan.OPEN:
            depth += 1
        elif t.k == "p" and t.s in rsscan.CLOSE:
            depth -= 1
        elif depth == 0 and t.k == "p" and t.s == "->":
            arrow = i
        elif depth == 0 and t.k == "id" and t.s == "where":
            where_i = i
    sig_edits = {}
    if fs.ret:
        if arrow is None:
            raise ScanError("%s: ret: given but the function returns nothing" % fs.ident)
        end = where_i if where_i is not None else len(sigt)
        ty = rsscan.text(sigt[arrow + 1:end]).strip()
        pre = sigt[:arrow + 1]
        post = sigt[end:]
        sigt = pre + [Tok("id", " (%s: %s) " % (fs.ret, ty), pre[-1].pos, pre[-1].line)] + post
        unit.log.append("T3 %s: return value named `%s`" % (where, fs.ret))
    if fs.mutself:
        sg = _sigidx(sigt)
        done = False
        for n, i in enumerate(sg):
            if sigt[i].k == "id" and sigt[i].s == "mut" and n + 1 < len(sg) and sigt[sg[n+1]].s == "self":
                sigt[i] = Tok("ws", "", sigt[i].pos, sigt[i].line)
                done = True
                break
        if not done:
            raise ScanError("%s: mutself but no `mut self`" % fs.ident)
        nb = []
        for t in body:
            if t.k == "id" and t.s == "self":
                nb.append(Tok("id", "self_", t.pos, t.line))
            else:
                nb.append(t)
        body = [Tok("ws", " let mut self_ = self;", body[0].pos if body else 0, sigt[-1].line)] + nb
        unit.log.append("T10 %s: `mut self` -> `self` + `let mut self_ = self`" % where)
    # --- loops: T4 / T5
    loops = find_loops(body)
    inserts = {}   # token index -> list of (text, meta)   inserted BEFORE token
    replaces = {}  # token index range start -> (end, text)
    for k, spec in fs.loops.items():
        if k < 1 or k > len(loops):
            raise ScanError("lost anchor: %s has %d loops, contract wants loop %d" % (fs.ident, len(loops), k))
        kw = loops[k - 1]
        bo = loop_body_open(body, kw)
        inv = spec["text"].rstrip("\n")
        # lines before `invariant` are a ghost prelude emitted just before the loop
        pre = ""
        ls = inv.split("\n")
        for n_, l_ in enumerate(ls):
            if l_.strip().startswith("invariant"):
                pre, inv = "\n".join(ls[:n_]), "\n".join(ls[n_:])
                break
        meta = ("clause", fs.ident, "invariant", "loop%d" % k)
        if spec["forloop"]:
            if body[kw].s != "for":
                raise ScanError("%s loop %d is not a for loop" % (fs.ident, k))
            # for PAT in EXPR {
            depth = 0
            in_i = None
            for j in range(kw + 1, bo):
                t = body[j]
                if t.k == "p" and t.s in rsscan.OPEN:
                    depth += 1
                elif t.k == "p" and t.s in rsscan.CLOSE:
                    depth -= 1
                elif depth == 0 and t.k == "id" and t.s == "in":
                    in_i = j; break
            if in_i is None:
                raise ScanError("for without in")
            pat = rsscan.text(body[kw + 1:in_i]).strip()
            expr = rsscan.text(body[in_i + 1:bo]).strip()
            itv = "verif_it%d" % k
            bc = rsscan.match_close(body, bo)
            replaces[kw] = (bo + 1, "{ let mut %s = %s;\n%s\nloop\n%s\n{ let %s = match %s.next() { Some(verif_v) => verif_v, None => break };" % (itv, expr, pre, inv, pat, itv), meta)
            inserts.setdefault(bc + 1, []).append((" }", None))
            unit.log.append("T5 %s: for-loop %d desugared to loop/next (pattern `%s`, iterator `%s`)" % (where, k, pat, expr))
        else:
            if pre:
                inserts.setdefault(kw, []).append(("\n" + pre + "\n", ("clause", fs.ident, "ghost", "loop%d-pre" % k)))
            inserts.setdefault(bo, []).append(("\n" + inv + "\n", meta))
        unit.log.append("T4 %s: loop %d received invariant/decreases" % (where, k))
    # --- emit
    o = unit.out
    o.nl()
    fn_first = o.lineno()
    for a in fs.attrs:
        o.write(a + "\n", ("tmpl", fs.ident, 0))
    if fs.nobody:
        o.write("#[verifier::external_body]\n", ("tmpl", fs.ident, 0))
    # drop leading ws of signature
    while sigt and sigt[0].k == "ws":
        sigt = sigt[1:]
    while sigt and sigt[-1].k == "ws":
        sigt = sigt[:-1]
    if fs.sigrewrites:
        sigtext = "".join(t.s for t in sigt)
        for rx, rep in fs.sigrewrites:
            if not re.search(rx, sigtext):
                raise ScanError("lost anchor: sigrewrite /%s/ in %s has no match" % (rx, fs.ident))
            sigtext = re.sub(rx, rep, sigtext)
            unit.log.append("T8x %s: signature rewrite /%s/ => %s" % (where, rx, rep))
        o.write(apply_t8(sigtext, where, unit.log), ("src", fs.file, sigt[0].line if sigt else 0))
    else:
        _emit_tokens_t8(unit, sigt, fs.file, where)
    o.nl()
    clauses = []
    for kind, lst in (("requires", fs.requires), ("ensures", fs.ensures)):
        if not lst:
            continue
        o.write("    %s\n" % kind, ("tmpl", fs.ident, 0))
        for n, c in enumerate(lst):
            label = c.label or "%s%d" % (kind[0], n + 1)
            txt = c.text.rstrip()
            if not txt.endswith(","):
                txt += ","
            first = o.lineno()
            o.write("        " + txt + "\n", ("clause", fs.ident, kind, label))
            c.lines = (first, o.lineno() - 1)
            clauses.append({"kind": kind, "label": label, "props": c.props or fs.props, "text": c.text.strip(), "lines": list(c.lines)})
    if fs.decreases:
        o.write("    decreases %s\n" % fs.decreases.strip(), ("clause", fs.ident, "decreases", "decreases"))
    if fs.sigsuffix:
        o.write("    %s\n" % fs.sigsuffix, ("tmpl", fs.ident, 0))
    # body
    body_first = o.lineno()
    o.write("{", ("src", fs.file, toks[body_open].line))
    # build body text with edits, chunk by chunk
    chunks = []  # (text, meta)
    i = 0
    nb = len(body)
    while i <= nb:
        for (txt, meta) in inserts.get(i, []):
            chunks.append((txt, meta))
        if i == nb:
            break
        if i in replaces:
            end, txt, meta = replaces[i]
            chunks.append((txt, meta))
            i = end
            continue
        t = body[i]
        chunks.append((t.s, ("src", fs.file, t.line)))
        i += 1
    # ghost splices and T7 work on lines: materialise into a temporary Out
    tmp = Out()
    for txt, meta in chunks:
        tmp.write(txt, meta)
    btxt = tmp.finish()
    blines, bmeta = tmp.lines, tmp.meta
    # T6 ghosts
    glabels = getattr(fs, "ghost_labels", {})
    for gi, (pos, rx, nth, gtxt) in enumerate(fs.ghosts):
        gmeta = ("clause", fs.ident, "ghost", glabels[gi][0] if gi in glabels else (rx or pos))
        glines = gtxt.rstrip("\n").split("\n")
        if pos in ("first", "last"):
            at = 0 if pos == "first" else len(blines)
            if pos == "last":
                # before the trailing expression is not knowable; `last` means after the last line
                pass
        else:
            hits = [n for n, l in enumerate(blines) if bmeta[n] and bmeta[n][0] == "src" and re.search(rx, l)]
            if not hits:
                raise ScanError("lost anchor: ghost /%s/ in %s" % (rx, fs.ident))
            if nth is None and len(hits) > 1:
                raise ScanError("ambiguous ghost anchor /%s/ in %s (%d hits)" % (rx, fs.ident, len(hits)))
            h = hits[(nth or 1) - 1]
            at = h if pos == "before" else h + 1
        blines[at:at] = glines
        bmeta[at:at] = [gmeta] * len(glines)
        unit.log.append("T6 %s: ghost block %s /%s/" % (where, pos, rx))
    # T7 rewrites (line based; a rule must not span lines)
    whole = "\n".join(blines)
    for name, rx, rep, note in T7:
        cnt = len(re.findall(rx, whole))
        if cnt:
            # keep the line structure: a match spanning several lines is replaced by the text plus the newlines it contained
            new = re.sub(rx, lambda m_, rep=rep: m_.expand(rep) + "\n" * m_.group(0).count("\n"), whole)
            if new.count("\n") != whole.count("\n"):
                raise ScanError("T7 %s changes the number of lines in %s" % (name, fs.ident))
            whole = new
            unit.log.append("T7 %s: rule `%s` applied %d time(s) [%s]" % (where, name, cnt, note))
    whole = apply_t8(whole, where, unit.log)
    for rx, rep, must, guard in [(r[0], r[1], (r[2] if len(r) > 2 else False), (r[3] if len(r) > 3 else None)) for r in fs.rewrites]:
        cnt = len(re.findall(rx, whole))
        if must and guard and not re.search(guard, whole):
            must = False
        if not cnt and must:
            raise ScanError("lost anchor: mandatory rewrite /%s/ in %s has no match" % (rx, fs.ident))
        if not cnt:
            # the construct is gone: nothing to rewrite; Verus decides whether the new text is acceptable
            unit.log.append("T7x %s: per-function rewrite /%s/ not applicable (0 matches)" % (where, rx))
            continue
        new = re.sub(rx, lambda m_, rep=rep: m_.expand(rep) + "\n" * m_.group(0).count("\n"), whole)
        if new.count("\n") != whole.count("\n"):
            raise ScanError("rewrite changes line count in %s" % fs.ident)
        whole = new
        unit.log.append("T7x %s: per-function rewrite /%s/ => %s (%d)" % (where, rx, rep, cnt))
    blines = whole.split("\n")
    if fs.nobody:
        # contract only: the body is not verified here (it is in another unit) and is not compiled either
        blines, bmeta = [" unimplemented!() "], [("tmpl", fs.ident, 0)]
    for l, m in zip(blines, bmeta):
        o.write(l, m)
        o.write("\n", None)
    o.write("}", ("src", fs.file, toks[body_close].line))
    o.nl()
    fn_last = o.lineno() - 1
    unit.fns.append({
        "id": fs.ident, "file": fs.file, "path": fs.path, "props": fs.props,
        "sha256": hashlib.sha256(orig.encode()).hexdigest(),
        "src_lines": [it.toks[0].line, it.toks[-1].line],
        "out_lines": [fn_first, fn_last], "clauses": clauses + [{"kind": "invariant", "label": "loop%d" % k, "props": sorted(set((sp.get("props") or []) + list(fs.props))), "text": " ".join(sp["text"].split())[:300], "lines": []} for k, sp in fs.loops.items()]
            + [{"kind": "ghost", "label": lab, "props": pr or fs.props, "text": " ".join(fs.ghosts[gi][3].split())[:300], "lines": []} for gi, (lab, pr) in sorted(getattr(fs, "ghost_labels", {}).items()) if gi < len(fs.ghosts)],
        "nobody": fs.nobody,
        "loops": len(loops),
    })

def load_vc(ident):
    p = os.path.join(CONTRACTS, "fns", ident + ".vc")
    if not os.path.exists(p):
        raise ScanError("no contract file %s" % p)
    return parse_vc(ident, open(p).read())

def assemble(unit_name, twin=False):
    """twin=True adds `ensures false` to every function under contract (vacuity probe)"""
    unit = Unit(unit_name)
    path = os.path.join(CONTRACTS, "units", unit_name + ".rs")
    _process(unit, path, twin)
    text = unit.out.finish()
    unit.lemmas = scan_lemmas(text)
    return unit, text

def scan_lemmas(text):
    """property-level lemmas: a line `// @props: C01 C08 [-- what it says]` directly above `[pub] [broadcast] proof fn NAME`
    makes NAME an obligation of those properties.  Returns [{name, props, doc, first, last}] (1-based line range up to
    the next top-level item)."""
    L = text.split("\n")
    starts = [i for i, l in enumerate(L) if re.match(r"\s*(pub(\([a-z]+\))?\s+)?(open\s+|closed\s+|broadcast\s+|uninterp\s+)*(proof|spec|exec)?\s*fn\s+\w+", l)
              or re.match(r"\s*(pub\s+)?(struct|enum|impl|trait|mod|const|type)\b", l)]
    out = []
    for i, l in enumerate(L):
        m = re.match(r"\s*//\s*@props:\s*((?:C\d+\s*)+)(?:--\s*(.*))?$", l)
        if not m or i + 1 >= len(L):
            continue
        m2 = re.match(r"\s*(?:pub\s+)?(?:broadcast\s+)?proof\s+fn\s+(\w+)", L[i + 1])
        if not m2:
            continue
        nxt = [k for k in starts if k > i + 1]
        out.append({"name": m2.group(1), "props": m.group(1).split(), "doc": (m.group(2) or "").strip(),
                    "first": i + 2, "last": (nxt[0] if nxt else len(L))})
    return out

def _twin(fs, twin):
    """vacuity probes.  "entry": `assert(false)` at the start of every contracted body (must fail: the
    preconditions are satisfiable).  ("fn", id): `ensures false` on that ONE function only (must fail: no
    callee or shim contract it relies on is contradictory).  Adding `ensures false` to every function at once
    would be wrong: callers would inherit `false` from their callees."""
    if not twin or fs.nobody:
        return
    if twin == "entry":
        fs.ghosts.insert(0, ["first", None, None, "    assert(false); // VACUITY-ENTRY\n"])
        fs.ghost_labels = {gi + 1: v for gi, v in getattr(fs, "ghost_labels", {}).items()}
    elif isinstance(twin, tuple) and twin[0] == "fn" and twin[1] == fs.ident:
        fs.ensures.append(Clause("ensures", "VACUITY", ["_vacuity"], "false"))

def _process(unit, path, twin):
    rel = os.path.relpath(path, CONTRACTS)
    lines = open(path).read().split("\n")
    i = 0
    while i < len(lines):
        ln = lines[i]
        s = ln.strip()
        i += 1
        if s.startswith("//@"):
            d = s[3:].strip()
            cmd, _, arg = d.partition(" ")
            arg = arg.strip()
            if cmd == "include":
                _process(unit, os.path.join(CONTRACTS, arg), twin)
            elif cmd == "item":
                a, _, opts = arg.partition(";")
                parts = [p.strip() for p in a.split("|")]
                add_item(unit, parts[0], parts[1:], tuple(opts.split()))
            elif cmd == "impl":
                a, _, opts = arg.partition(";")
                parts = [p.strip() for p in a.split("|")]
                try:
                    check_impl(unit, parts[0], parts[1])
                except ScanError as e:
                    if "optional" not in opts.split():
                        raise
                    unit.log.append("T17 %s: impl header `%s` is gone (optional helper impl): skipped" % (parts[0], parts[1]))
            elif cmd == "use":
                ws = arg.split()
                fs = load_vc(ws[0])
                fs.nobody = fs.nobody or "nobody" in ws[1:]
                _twin(fs, twin)
                if "optional" in ws[1:]:
                    # T17: a private helper whose contract only serves its callers.  When the function itself is gone from
                    # the source (inlined, renamed), its contract is dropped and its callers - which are under contract for
                    # the same properties - are verified against the text that remains.  Anything else is still a lost anchor.
                    try:
                        rsscan.find_item(file_tokens(fs.file), fs.path)
                    except ScanError as e:
                        unit.absent.append(fs.ident)
                        unit.log.append("T17 %s::%s: optional helper is gone from the source; contract dropped, callers carry the obligation" % (fs.file, "/".join(fs.path)))
                        continue
                add_fn(unit, fs)
            elif cmd == "fn":
                # inline contract block until //@end
                blk = []
                while i < len(lines) and lines[i].strip() != "//@end":
                    l = lines[i]
                    l = re.sub(r"^\s*//@\|? ?", "", l, count=1)
                    blk.append(l)
                    i += 1
                i += 1
                ident = arg.split()[0]
                fs = parse_vc(ident, "\n".join(blk))
                _twin(fs, twin)
                add_fn(unit, fs)
            else:
                raise ScanError("unknown directive %s in %s" % (cmd, rel))
        else:
            unit.out.write(ln + "\n", ("tmpl", rel, i))

ASSUME_PATTERNS = [r"external_body", r"assume_specification", r"\bassume\s*\(", r"\badmit\s*\(", r"\buninterp\b",
                   r"accept_recursive_types", r"external_type_specification", r"#\[verifier::external\]", r"\baxiom\b"]

def scan_assumptions(text):
    res = {}
    for p in ASSUME_PATTERNS:
        n = len(re.findall(p, text))
        if n:
            res[p] = n
    return res

def named_assumptions(text, contract_only_names=()):
    """names of everything that is assumed rather than proved in an assembled unit: external_body functions (minus
    the contract-only restatements of functions proved in another unit), assume_specifications, axioms,
    uninterpreted spec functions, external types"""
    out = {"assumed_fns": [], "assume_specification": [], "axioms": [], "uninterpreted": [], "external_types": []}
    lines = text.split("\n")
    for i, l in enumerate(lines):
        if "external_body" in l and "external_type" not in l:
            # the item this attribute decorates: same line or one of the next few lines
            for j in range(i, min(i + 6, len(lines))):
                m = re.search(r"\b(fn|struct)\s+(\w+)", lines[j])
                if m:
                    (out["assumed_fns"] if m.group(1) == "fn" else out["external_types"]).append(m.group(2))
                    break
        m = re.search(r"assume_specification(?:<[^>]*>)?\s*\[\s*([^\]]+?)\s*\]", l)
        if m: out["assume_specification"].append(" ".join(m.group(1).split()))
        m = re.search(r"\baxiom\s+fn\s+(\w+)", l)
        if m: out["axioms"].append(m.group(1))
        m = re.search(r"\buninterp\s+spec\s+fn\s+(\w+)", l)
        if m: out["uninterpreted"].append(m.group(1))
    co = set(contract_only_names)
    out["proved_in_another_unit"] = sorted(set(n for n in out["assumed_fns"] if n in co))
    out["assumed_fns"] = sorted(set(n for n in out["assumed_fns"] if n not in co))
    for k in ("assume_specification", "axioms", "uninterpreted", "external_types"):
        out[k] = sorted(set(out[k]))
    return out
