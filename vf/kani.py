"""Kani runner: scratch copy of the real crate, harness modules injected as
cfg(kani) child modules, contract attributes inserted from kani/contracts.json,
one `cargo kani` invocation per check, concrete playback for counterexamples."""
import json, os, re, shutil, subprocess, time

HERE = os.path.dirname(os.path.dirname(os.path.abspath(__file__)))
KDIR = os.path.join(HERE, "kani")
REPO = os.environ.get("VERIF_REPO", "/repo")

def parse_harness_file(path):
    """`// @target src/x.rs` once; before each harness:
       // @harness NAME complete|bounded [contract] [tier=thorough] [bound="..."] [stub=a::b=c::d] props=C01,C02 doc="..." """
    txt = open(path).read()
    m = re.search(r"//\s*@target\s+(\S+)", txt)
    target = m.group(1) if m else None
    hs = []
    for m in re.finditer(r"//\s*@harness\s+(\w+)\s+(complete|bounded)([^\n]*)", txt):
        rest = m.group(3)
        d = {"name": m.group(1), "bounded": m.group(2) == "bounded", "contract": " contract" in rest,
             "tier": "quick", "bound": None, "props": [], "doc": "", "stubs": [], "unwind": None}
        mm = re.search(r'tier=(\w+)', rest)
        if mm: d["tier"] = mm.group(1)
        mm = re.search(r'bound="([^"]*)"', rest)
        if mm: d["bound"] = mm.group(1)
        mm = re.search(r'props=([\w,]+)', rest)
        if mm: d["props"] = mm.group(1).split(",")
        mm = re.search(r'doc="([^"]*)"', rest)
        if mm: d["doc"] = mm.group(1)
        hs.append(d)
    return target, hs

def group_file(g):
    return os.path.join(KDIR, g + "_harness.rs")

def default_target(g):
    return "src/%s.rs" % g.replace("__", "/")

def make_scratch(groups):
    base = os.environ.get("VERIF_SCRATCH", "/var/tmp")
    d = os.path.join(base, "zipverif-kani-%d-%d" % (os.getpid(), int(time.time() * 1000) % 100000))
    os.makedirs(d)
    for n in ("src", "benches", "tests", "Cargo.toml", "Cargo.lock"):
        s = os.path.join(REPO, n)
        if os.path.isdir(s):
            shutil.copytree(s, os.path.join(d, n))
        elif os.path.exists(s):
            shutil.copy(s, os.path.join(d, n))
    os.makedirs(os.path.join(d, ".cargo"), exist_ok=True)
    open(os.path.join(d, ".cargo", "config.toml"), "w").write("[net]\noffline = true\n")
    return d

def inject(d, groups):
    und = []
    for g in groups:
        target, _ = parse_harness_file(group_file(g))
        target = target or default_target(g)
        p = os.path.join(d, target)
        if not os.path.exists(p):
            und.append({"unit": "kani:" + g, "reason": "lost anchor: %s does not exist" % target})
            continue
        with open(p, "a") as f:
            f.write('\n#[cfg(kani)] #[path = "%s"] mod verif_kani_%s;\n' % (group_file(g), g))
    # crate-level feature gates some harnesses need (loop contracts): none at present
    cs = json.load(open(os.path.join(KDIR, "contracts.json")))
    applied = []
    for c in cs:
        p = os.path.join(d, c["file"])
        if not os.path.exists(p):
            und.append({"unit": "kani", "reason": "lost anchor: %s" % c["file"]}); continue
        L = open(p).read().split("\n")
        out, n = [], 0
        for l in L:
            if " ".join(l.split()) == " ".join(c["anchor"].split()):
                ind = l[:len(l) - len(l.lstrip())]
                for a in c["attrs"]:
                    out.append(ind + a)
                n += 1
            out.append(l)
        if n != 1:
            und.append({"unit": "kani", "reason": "lost anchor: contract anchor %r found %d times in %s" % (c["anchor"], n, c["file"])})
            continue
        open(p, "w").write("\n".join(out))
        applied.append("%s: %s" % (c["file"], c["anchor"]))
    return und, applied

def _parse_block(name, b):
    short = name.split("::")[-1]
    st = None
    m = re.search(r"VERIFICATION:- (\w+)", b)
    if m: st = m.group(1)
    checks = failed = None
    m = re.search(r"\*\* (\d+) of (\d+) failed", b)
    if m:
        failed, checks = int(m.group(1)), int(m.group(2))
    cov = None
    m = re.search(r"\*\* (\d+) of (\d+) cover properties satisfied", b)
    if m:
        cov = (int(m.group(1)), int(m.group(2)))
    vt = None
    m = re.search(r"Verification Time: ([0-9.]+)s", b)
    if m: vt = float(m.group(1))
    fails = re.findall(r"Failed Checks: ([^\n]*)\n\s*File: \"([^\"]*)\", line (\d+)", b)
    pb = None
    m = re.search(r"Concrete playback unit test for `[^`]*`:\n```\n(.*?)```", b, flags=re.S)
    if m:
        pb = m.group(1)
    stubs = re.findall(r"- Stub: ([^\n]*)", b)
    return short, {"full": name, "status": st, "checks": checks, "failed": failed, "cover": cov, "time_s": vt,
                   "failed_checks": [{"desc": f[0], "file": f[1], "line": int(f[2])} for f in fails], "playback": pb, "stubs": stubs}

def parse_output(txt):
    """handles the single-threaded (`Checking harness X...` blocks) and the
    multi-threaded terse (`Thread N: ...`) output formats"""
    res = {}
    if re.search(r"^Thread \d+: ", txt, flags=re.M):
        cur = {}      # thread -> harness name
        blocks = {}   # harness -> text
        active = None
        for ln in txt.split("\n"):
            m = re.match(r"Thread (\d+): (.*)$", ln)
            if m:
                th, rest = m.group(1), m.group(2)
                mm = re.match(r"Checking harness (\S+?)\.\.\.", rest)
                if mm:
                    cur[th] = mm.group(1)
                    blocks.setdefault(mm.group(1), "")
                    active = None
                else:
                    active = cur.get(th)
                    if active:
                        blocks[active] += rest + "\n"
                continue
            if ln.startswith("Manual Harness Summary") or ln.startswith("Complete - "):
                active = None
            if active:
                blocks[active] += ln + "\n"
        for name, b in blocks.items():
            k, v = _parse_block(name, b)
            res[k] = v
        return res
    parts = re.split(r"^Checking harness ", txt, flags=re.M)
    for b in parts[1:]:
        name = b.split("...", 1)[0].strip()
        k, v = _parse_block(name, b)
        res[k] = v
    return res

def run_groups(groups, tier, pid, only=None):
    t0 = time.time()
    hs = []
    for g in groups:
        _, lst = parse_harness_file(group_file(g))
        for h in lst:
            h["group"] = g
            if pid and pid not in h["props"]:
                continue
            if h["tier"] == "thorough" and tier != "thorough":
                continue
            if only and h["name"] not in only:
                continue
            hs.append(h)
    out = {"harnesses": [], "undecided": [], "report": {}, "trusted": [], "cmd": ""}
    if not hs:
        return out
    d = make_scratch(groups)
    try:
        und, applied = inject(d, groups)
        out["undecided"] += und
        base_cmd = ["cargo", "kani", "-Z", "function-contracts", "-Z", "stubbing"]
        cmd = base_cmd + ["--output-format", "terse", "-j", str(min(8, len(hs)))]
        for h in hs:
            cmd += ["--harness", h["name"]]
        out["cmd"] = "CARGO_NET_OFFLINE=true " + " ".join(cmd) + "   (in a scratch copy of /repo with kani/*_harness.rs injected)"
        env = dict(os.environ, CARGO_NET_OFFLINE="true")
        to = int(os.environ.get("VERIF_KANI_TIMEOUT", "1500" if tier == "quick" else "7200"))
        try:
            p = subprocess.run(cmd, cwd=d, capture_output=True, text=True, env=env, timeout=to)
            txt = p.stdout + "\n" + p.stderr
        except subprocess.TimeoutExpired as e:
            txt = (e.stdout or b"").decode(errors="replace") if isinstance(e.stdout, bytes) else (e.stdout or "")
            out["undecided"].append({"unit": "kani", "reason": "cargo kani timed out after %ds" % to})
        # counterexamples: re-run the failed harnesses single-threaded with concrete playback
        first = parse_output(txt)
        failed_names = [n for n, r in first.items() if r["status"] == "FAILED"]
        if failed_names:
            cmd2 = base_cmd + ["-Z", "concrete-playback", "--concrete-playback=print"]
            for n in failed_names:
                cmd2 += ["--harness", n]
            try:
                p2 = subprocess.run(cmd2, cwd=d, capture_output=True, text=True, env=env, timeout=to)
                second = parse_output(p2.stdout + "\n" + p2.stderr)
                for n in failed_names:
                    if n in second and second[n]["playback"]:
                        txt += "\n"  # keep first-run text for diagnostics
                        first[n]["playback"] = second[n]["playback"]
            except subprocess.TimeoutExpired:
                pass
        parsed = first
        if "error: could not compile" in txt or "error[E" in txt:
            errs = "\n".join(l for l in txt.split("\n") if l.startswith("error"))[:1500]
            out["undecided"].append({"unit": "kani", "reason": "harness crate does not compile (unsupported construct or lost anchor)", "detail": errs})
        for h in hs:
            r = parsed.get(h["name"])
            rec = dict(h)
            if r is None:
                rec.update({"status": "NO-RESULT", "checks": 0, "failed": 0, "detail": txt[-1500:]})
            else:
                rec.update({"status": r["status"], "checks": r["checks"], "failed": r["failed"], "cover": r["cover"], "time_s": r["time_s"],
                            "failed_checks": r["failed_checks"], "stubs": r["stubs"]})
                if r["cover"] and r["cover"][0] != r["cover"][1] and r["status"] == "SUCCESSFUL":
                    rec["status"] = "VACUOUS-COVER"
                if r["status"] == "FAILED":
                    rec["detail"] = "; ".join("%s (%s:%d)" % (f["desc"], f["file"], f["line"]) for f in r["failed_checks"])[:1500]
                    if r["playback"]:
                        rec["playback"] = run_playback(d, h, r["playback"])
            out["harnesses"].append(rec)
        out["report"] = {"harnesses": [{k: v for k, v in x.items() if k not in ("detail",)} for x in out["harnesses"]],
                         "contracts_injected": applied, "wall_s": round(time.time() - t0, 1),
                         "kani_version": kani_version()}
        out["trusted"] = ["kani: CBMC bit-precise semantics of the compiled MIR; kani::assume in harness preambles restricts inputs as documented per harness",
                          ] + sorted(set("kani stub: " + s for x in out["harnesses"] for s in x.get("stubs", [])))
    finally:
        shutil.rmtree(d, ignore_errors=True)
    return out

_kv = None
def kani_version():
    global _kv
    if _kv is None:
        try:
            _kv = subprocess.check_output(["cargo", "kani", "--version"], text=True, stderr=subprocess.STDOUT).strip().split("\n")[-1]
        except Exception:
            _kv = "?"
    return _kv

def run_playback(d, h, test_src):
    """append the generated concrete-playback test to the harness module of the
    scratch copy and run it natively (cargo kani playback) against the real code"""
    target, _ = parse_harness_file(group_file(h["group"]))
    # playback tests must live next to the harness: write a sibling module file in the scratch copy
    hf = os.path.join(d, "verif_playback_%s.rs" % h["group"])
    shutil.copy(group_file(h["group"]), hf)
    with open(hf, "a") as f:
        f.write("\n" + test_src + "\n")
    src = os.path.join(d, target or default_target(h["group"]))
    s = open(src).read().replace('#[path = "%s"]' % group_file(h["group"]), '#[path = "%s"]' % hf)
    open(src, "w").write(s)
    m = re.search(r"fn (kani_concrete_playback_\w+)", test_src)
    tname = m.group(1) if m else ""
    cmd = ["cargo", "kani", "playback", "-Z", "concrete-playback", "--", tname]
    p = subprocess.run(cmd, cwd=d, capture_output=True, text=True, env=dict(os.environ, CARGO_NET_OFFLINE="true"), timeout=900)
    o = p.stdout + p.stderr
    failed = ("FAILED" in o or "panicked" in o) and "could not compile" not in o
    tail = "\n".join(l for l in o.split("\n") if "panicked" in l or "assert" in l or "test " in l)[:1500]
    return {"harness": h["name"], "group": h["group"], "test": test_src, "cmd": " ".join(cmd), "failed_on_real_code": failed, "output": tail}

def replay(cex):
    d = make_scratch([cex["group"]])
    try:
        inject(d, [cex["group"]])
        return run_playback(d, {"group": cex["group"], "name": cex["harness"]}, cex["test"])
    finally:
        shutil.rmtree(d, ignore_errors=True)
