"""Token-level Rust scanner: tokens, item lookup, cfg resolution (T1), attribute
stripping (T2).  It never re-types code: every transformation removes tokens
or inserts text at a token boundary, and each is logged.

Not a parser.  It knows comments, (raw/byte) strings, chars vs lifetimes,
numbers, identifiers, punctuation and bracket nesting, which is enough to cut
items out of a source file by path and to delete the things a `#[cfg]`
attribute guards.  Anything it is unsure about raises ScanError, which the
driver turns into exit 2 (UNDECIDED), never into a violation.
"""
import re

class ScanError(Exception):
    pass

class Tok:
    __slots__ = ("k", "s", "pos", "line")
    def __init__(self, k, s, pos, line):
        self.k = k      # ws, lc (line comment), bc (block comment), doc, str, chr, life, id, num, p
        self.s = s
        self.pos = pos
        self.line = line
    def __repr__(self):
        return "Tok(%s,%r,l%d)" % (self.k, self.s, self.line)

_ident = re.compile(r"[A-Za-z_][A-Za-z0-9_]*")
_num = re.compile(r"(0x[0-9a-fA-F_]+|0o[0-7_]+|0b[01_]+|[0-9][0-9_]*(\.[0-9][0-9_]*)?([eE][+-]?[0-9_]+)?)([A-Za-z][A-Za-z0-9_]*)?")
_punct3 = ("<<=", ">>=", "...", "..=")
_punct2 = ("::", "->", "=>", "==", "!=", "<=", ">=", "&&", "||", "+=", "-=", "*=", "/=", "%=", "^=", "&=", "|=", "<<", ">>", "..")

def tokenize(src):
    toks = []
    i, n, line = 0, len(src), 1
    def add(k, j):
        nonlocal i, line
        s = src[i:j]
        toks.append(Tok(k, s, i, line))
        line += s.count("\n")
        i = j
    while i < n:
        c = src[i]
        if c in " \t\r\n":
            j = i
            while j < n and src[j] in " \t\r\n":
                j += 1
            add("ws", j)
        elif src.startswith("//", i):
            j = src.find("\n", i)
            if j < 0:
                j = n
            t = src[i:j]
            isdoc = (t.startswith("///") and not t.startswith("////")) or t.startswith("//!")
            add("doc" if isdoc else "lc", j)
        elif src.startswith("/*", i):
            depth, j = 1, i + 2
            while j < n and depth:
                if src.startswith("/*", j):
                    depth += 1; j += 2
                elif src.startswith("*/", j):
                    depth -= 1; j += 2
                else:
                    j += 1
            t = src[i:j]
            isdoc = (t.startswith("/**") and not t.startswith("/***") and t != "/**/") or t.startswith("/*!")
            add("doc" if isdoc else "bc", j)
        elif c == '"' or (c in "br" and re.match(r'(b|r|br|rb)?(#*)"', src[i:i+8]) and _is_str_start(src, i)):
            j = _scan_string(src, i)
            add("str", j)
        elif c == "'" or (c == "b" and src.startswith("b'", i)):
            j = _scan_char_or_lifetime(src, i)
            k = "chr" if src[j-1] == "'" and j - i >= 3 else "life"
            add(k, j)
        elif c.isalpha() or c == "_":
            m = _ident.match(src, i)
            add("id", m.end())
        elif c.isdigit():
            m = _num.match(src, i)
            j = m.end()
            # `0..n`: do not swallow the range dots
            if src[i:j].count(".") == 1 and src[j-1] == ".":
                j -= 1
            s = src[i:j]
            if "." in s and j < n and src[j] == "." :
                # "1..2" matched as "1." then "." -> back off
                j = i + s.index(".")
            add("num", j)
        else:
            for p in _punct3:
                if src.startswith(p, i):
                    add("p", i + 3); break
            else:
                for p in _punct2:
                    if src.startswith(p, i):
                        add("p", i + 2); break
                else:
                    add("p", i + 1)
    return toks

def _is_str_start(src, i):
    m = re.match(r'(b|r|br|rb)?(#*)"', src[i:i+12])
    if not m:
        return False
    if m.group(2) and "r" not in (m.group(1) or ""):
        return False
    # make sure the prefix is not the tail of an identifier
    return i == 0 or not (src[i-1].isalnum() or src[i-1] == "_")

def _scan_string(src, i):
    m = re.match(r'(b|r|br|rb)?(#*)"', src[i:i+40])
    pre, hashes = m.group(1) or "", m.group(2)
    j = i + m.end()
    if "r" in pre:
        end = '"' + hashes
        k = src.find(end, j)
        if k < 0:
            raise ScanError("unterminated raw string")
        return k + len(end)
    while j < len(src):
        if src[j] == "\\":
            j += 2
        elif src[j] == '"':
            return j + 1
        else:
            j += 1
    raise ScanError("unterminated string")

def _scan_char_or_lifetime(src, i):
    j = i + (2 if src[i] == "b" else 1)
    if src[j] == "\\":
        k = src.find("'", j + 2)
        return k + 1
    # 'x' is a char if the quote closes right after one char; else lifetime
    if j + 1 < len(src) and src[j + 1] == "'":
        return j + 2
    m = _ident.match(src, j)
    if m:
        return m.end()
    # non-ascii char literal
    k = src.find("'", j)
    return k + 1

OPEN = {"(": ")", "[": "]", "{": "}"}
CLOSE = {")": "(", "]": "[", "}": "{"}

def sig(toks):
    """indices of significant tokens (not ws/comments/doc)"""
    return [i for i, t in enumerate(toks) if t.k not in ("ws", "lc", "bc", "doc")]

def match_close(toks, i):
    """toks[i] is an opening bracket: return index of its closing bracket"""
    depth = 0
    for j in range(i, len(toks)):
        t = toks[j]
        if t.k == "p":
            if t.s in OPEN:
                depth += 1
            elif t.s in CLOSE:
                depth -= 1
                if depth == 0:
                    return j
    raise ScanError("unbalanced bracket at line %d" % toks[i].line)

def text(toks):
    return "".join(t.s for t in toks)

def norm(s):
    return re.sub(r"\s+", "", s)

# ---------------------------------------------------------------------------
# cfg evaluation (T1): default features, unix, x86_64, not(test), not(doc)

DEFAULT_FEATURES = {"aes-crypto", "bzip2", "deflate", "time", "zstd", "default",
                    # optional dependencies switched on by the features above
                    "aes", "constant_time_eq", "hmac", "pbkdf2", "sha1", "flate2"}
CFG_FLAGS = {"unix"}
CFG_KV = {"target_arch": "x86_64", "target_pointer_width": "64", "target_os": "linux", "target_family": "unix"}

def eval_cfg(toks):
    """toks: significant tokens of the predicate inside cfg( ... )"""
    pos = 0
    def parse():
        nonlocal pos
        t = toks[pos]
        if t.k != "id":
            raise ScanError("cfg: unexpected %r" % t.s)
        name = t.s
        pos += 1
        if pos < len(toks) and toks[pos].s == "(":
            pos += 1
            args = []
            while toks[pos].s != ")":
                args.append(parse())
                if toks[pos].s == ",":
                    pos += 1
            pos += 1
            if name == "any":
                return any(args)
            if name == "all":
                return all(args)
            if name == "not":
                if len(args) != 1:
                    raise ScanError("cfg not() arity")
                return not args[0]
            raise ScanError("cfg: unknown combinator %s" % name)
        if pos < len(toks) and toks[pos].s == "=":
            pos += 1
            v = toks[pos].s
            pos += 1
            v = v.strip('"')
            if name == "feature":
                return v in DEFAULT_FEATURES
            if name in CFG_KV:
                return CFG_KV[name] == v
            raise ScanError("cfg: unknown key %s" % name)
        if name in ("test", "doc", "kani", "windows", "debug_assertions_off"):
            return False
        if name in CFG_FLAGS:
            return True
        raise ScanError("cfg: unknown flag %s" % name)
    v = parse()
    if pos != len(toks):
        raise ScanError("cfg: trailing tokens")
    return v

DROP_ATTRS = {"allow", "deprecated", "must_use", "inline", "non_exhaustive", "doc", "warn", "deny"}

def _attr_at(toks, i):
    """if a `#[...]` / `#![...]` attribute starts at significant token i return
    (end_index_exclusive, name, inner_token_list) else None"""
    if toks[i].k != "p" or toks[i].s != "#":
        return None
    j = i + 1
    while j < len(toks) and toks[j].k == "ws":
        j += 1
    if j < len(toks) and toks[j].s == "!":
        j += 1
    if j >= len(toks) or toks[j].s != "[":
        return None
    e = match_close(toks, j)
    inner = [t for t in toks[j+1:e] if t.k not in ("ws", "lc", "bc", "doc")]
    name = inner[0].s if inner else ""
    return e + 1, name, inner

_CONTINUE_AFTER_BRACE = {".", "?", "as", "else", "=>", "|", "if", "+", "-", "*", "/", "%", "&&", "||", "==", "!=", "<", ">", "<=", ">=", "&", "^", "<<", ">>"}

def element_extent(toks, start):
    """End (exclusive) of the element beginning at token index `start`: a
    field / parameter / argument / match arm / statement / item / tail expr."""
    i, n, depth = start, len(toks), 0
    while i < n:
        t = toks[i]
        if t.k == "p":
            if t.s in OPEN:
                depth += 1
            elif t.s in CLOSE:
                if depth == 0:
                    return i
                depth -= 1
                if depth == 0 and t.s == "}":
                    j = i + 1
                    while j < n and toks[j].k in ("ws", "lc", "bc", "doc"):
                        j += 1
                    nxt = toks[j].s if j < n else ""
                    if nxt in (",", ";"):
                        return j + 1
                    if nxt in _CONTINUE_AFTER_BRACE:
                        i += 1
                        continue
                    return i + 1
            elif depth == 0 and t.s in (";", ","):
                return i + 1
            elif depth == 0 and t.s == "<":
                # a `,` inside generics would cut the element short: refuse
                # unless this is clearly an item introduced by a keyword
                head = [x.s for x in toks[start:i] if x.k == "id"]
                if not head or head[0] not in ("fn", "pub", "use", "impl", "mod", "struct", "enum", "const", "static", "type", "trait", "return", "let"):
                    raise ScanError("cfg-false element with generics at line %d" % t.line)
        i += 1
    return n

def resolve_cfg_and_attrs(toks, log, where="", keep_debug=False):
    """Apply T1 and T2 to a token list; returns a new token list.  Deleted
    tokens are replaced by the newlines they contained so that line structure
    relative to the start is preserved."""
    out = []
    i, n = 0, len(toks)
    def blank(ts):
        nl = sum(t.s.count("\n") for t in ts)
        if nl:
            out.append(Tok("ws", "\n" * nl, ts[0].pos, ts[0].line))
    while i < n:
        t = toks[i]
        if t.k == "doc":
            blank([t]); i += 1; continue
        a = _attr_at(toks, i) if t.k == "p" and t.s == "#" else None
        if a is None:
            out.append(t); i += 1; continue
        end, name, inner = a
        if name == "cfg":
            pred = inner[2:-1]  # cfg ( ... )
            val = eval_cfg(pred)
            if val:
                log.append("T1 %s line %d: #[cfg(%s)] true, attribute removed" % (where, t.line, text(pred)))
                blank(toks[i:end]); i = end
            else:
                # skip further attributes/doc/ws belonging to the element
                j = end
                while True:
                    while j < n and toks[j].k in ("ws", "lc", "bc", "doc"):
                        j += 1
                    a2 = _attr_at(toks, j) if j < n and toks[j].s == "#" else None
                    if a2 is None:
                        break
                    j = a2[0]
                e = element_extent(toks, j)
                log.append("T1 %s line %d: #[cfg(%s)] false, removed lines %d-%d" % (where, t.line, text(pred), t.line, toks[e-1].line if e > 0 else t.line))
                blank(toks[i:e]); i = e
        elif name == "cfg_attr":
            raise ScanError("cfg_attr not supported (line %d)" % t.line)
        elif name in DROP_ATTRS:
            log.append("T2 %s line %d: #[%s..] removed" % (where, t.line, name))
            blank(toks[i:end]); i = end
        elif name == "derive" and not keep_debug and any(x.k == "id" and x.s == "Debug" for x in inner):
            # T2: `Debug` is dropped from derive lists (formatting only); the other derives stay
            names = [x.s for x in inner[2:-1] if x.k == "id"]
            keep = [x for x in names if x != "Debug"]
            log.append("T2 %s line %d: Debug removed from #[derive(%s)]" % (where, t.line, ", ".join(names)))
            if keep:
                out.append(Tok("attr", "#[derive(%s)]" % ", ".join(keep), t.pos, t.line))
            nl = sum(x.s.count("\n") for x in toks[i:end])
            if nl:
                out.append(Tok("ws", "\n" * nl, t.pos, t.line))
            i = end
        else:
            out.extend(toks[i:end]); i = end
    return out

# ---------------------------------------------------------------------------
# items

ITEM_KW = ("fn", "struct", "enum", "const", "static", "impl", "trait", "mod", "type", "use", "union", "macro_rules")

class Item:
    def __init__(self, kind, name, toks, start_line, header):
        self.kind, self.name, self.toks, self.start_line, self.header = kind, name, toks, start_line, header
    def body_tokens(self):
        """tokens strictly inside the first top-level {...} of the item"""
        for i, t in enumerate(self.toks):
            if t.k == "p" and t.s == "{":
                e = match_close(self.toks, i)
                return self.toks[i+1:e]
            if t.k == "p" and t.s == ";":
                break
        return None

def split_items(toks):
    """Split a token list (file or mod/impl/trait body) into Items.  cfg-false
    items are skipped."""
    items = []
    i, n = 0, len(toks)
    while i < n:
        while i < n and toks[i].k in ("ws", "lc", "bc"):
            i += 1
        if i >= n:
            break
        start = i
        cfg_ok = True
        # leading docs / attributes
        while i < n:
            if toks[i].k in ("ws", "lc", "bc", "doc"):
                i += 1; continue
            a = _attr_at(toks, i) if toks[i].s == "#" else None
            if a is None:
                break
            end, name, inner = a
            if name == "cfg" and not eval_cfg(inner[2:-1]):
                cfg_ok = False
            i = end
        if i >= n:
            break
        # visibility / qualifiers
        j = i
        kw = None
        while j < n:
            t = toks[j]
            if t.k in ("ws", "lc", "bc", "doc"):
                j += 1; continue
            if t.k == "id" and t.s == "pub":
                j += 1
                k = j
                while k < n and toks[k].k == "ws":
                    k += 1
                if k < n and toks[k].s == "(":
                    j = match_close(toks, k) + 1
                continue
            if t.k == "id" and t.s in ("unsafe", "async", "extern", "default"):
                j += 1; continue
            if t.k == "str":   # extern "C"
                j += 1; continue
            if t.k == "id" and t.s == "const":
                # `const fn` vs `const NAME`
                k = j + 1
                while k < n and toks[k].k == "ws":
                    k += 1
                if k < n and toks[k].s in ("fn", "unsafe", "async", "extern"):
                    j = k; continue
                kw = "const"; break
            if t.k == "id" and t.s in ITEM_KW:
                kw = t.s; break
            break
        if kw is None:
            # stray token (e.g. a macro invocation at item level): take to ';' or '}'
            e = element_extent(toks, i)
            if e <= i:
                e = i + 1
            i = e
            continue
        # name / header
        k = j + 1
        while k < n and toks[k].k == "ws":
            k += 1
        # extent
        e = None
        depth = 0
        m = j
        while m < n:
            t = toks[m]
            if t.k == "p":
                if t.s in OPEN:
                    if t.s == "{" and depth == 0 and kw not in ("const", "static", "type", "use"):
                        e = match_close(toks, m) + 1
                        hdr_end = m
                        break
                    depth += 1
                elif t.s in CLOSE:
                    depth -= 1
                elif t.s == ";" and depth == 0:
                    e = m + 1
                    hdr_end = m
                    break
            m += 1
        if e is None:
            raise ScanError("item without end at line %d" % toks[j].line)
        if kw in ("impl",):
            name = norm(text(toks[j:hdr_end]))
        elif kw == "macro_rules":
            name = "macro_rules"
        else:
            name = toks[k].s if k < n else "?"
        header = text(toks[j:hdr_end])
        if cfg_ok:
            items.append(Item(kw, name, toks[start:e], toks[start].line, header))
        i = e
    return items

def find_item(file_toks, path):
    """path: list of selectors, e.g. ["impl CentralDirectoryEnd", "fn parse"] or
    ["mod zip_writer", "struct ZipWriter"].  An impl selector is compared after
    removing all whitespace."""
    cur = split_items(file_toks)
    item = None
    for depth, sel in enumerate(path):
        kind, _, name = sel.strip().partition(" ")
        if re.match(r"impl\b", sel.strip()):
            want = norm(sel)
            cands = [it for it in cur if it.kind == "impl" and it.name == want]
        else:
            cands = [it for it in cur if it.kind == kind and it.name == name.strip()]
        if not cands:
            raise ScanError("lost anchor: %s (in %s)" % (sel, " :: ".join(path)))
        if depth == len(path) - 1:
            if len(cands) > 1:
                raise ScanError("ambiguous anchor: %s" % sel)
            return cands[0]
        # descend: merge the bodies of all candidates (several impl blocks may share a header)
        nxt = []
        for c in cands:
            b = c.body_tokens()
            if b is not None:
                nxt.extend(split_items(b))
        cur = nxt
    return item
